"""Reference model of the jq 1.7.1 *core fragment* (oracle of check C24).

jq 1.7.1 is not installed in this image, so the oracle is this model, written from jq's
documented semantics and its own definitions (the jq-coded builtins below are jq 1.7.1's
`builtin.jq` definitions evaluated by this interpreter), and BOUND to jq 1.7.1 in two ways
by py/c24.py before it is used:

* every recorded jq-1.7.1 trace in /repo/tests/data (jq-golden/cases/*, jq-error-messages.tsv)
  whose program lies inside the fragment must be reproduced byte for byte;
* run in `compat16` mode (the documented 1.6 -> 1.7.1 changes of CHANGES switched back) it must
  agree with /usr/bin/jq 1.6 on a (program, input) pair, otherwise the pair is
  "oracle-undetermined" and is not judged.

Anything the model is not sure about raises `Unsupported` ("outside the fragment"): such programs
or pairs are counted, never judged.  Nothing here calls the code under test.

The evaluator is written in continuation-passing style because that is how jq itself runs
(a backtracking stack machine): `ev(ast, env, value, tok, k)` calls `k(out, tok)` once per output,
an error is a Python exception that unwinds through the continuations, and returning from `k` is
backtracking.  That makes jq's path tracking (`path(f)`: a dynamic path register restored on
backtracking, value identity checked at every path step) and both generations of try/catch
(1.7.1: errors raised *after* the body produced an output are not caught; 1.6: they are)
direct transcriptions of execute.c instead of approximations.
"""
import json, math, struct, sys

sys.setrecursionlimit(20000)

# ------------------------------------------------------------------ documented 1.6 -> 1.7.1 changes --
# A (program, input) pair is judged only if jq 1.6 agrees with this model run with these switched
# back to the 1.6 behaviour.  Each entry: what changed, and where it is documented / recorded.
CHANGES = {
    "try-downstream": "1.6 try/catch and `?` also catch errors raised DOWNSTREAM of the body's outputs, and `try A catch B` re-raises "
                      "`break`; 1.7.1 catches only errors of the body, and `try break $l catch B` runs B "
                      "(jq 1.7 NEWS 'try catches more than it should' #2750; golden try_break_not_caught, *_error_after_output)",
    "error-null": "1.6: `error(null)` is indistinguishable from backtracking (no output, no failure); 1.7.1 raises null "
                  "(jq 1.7 NEWS; golden try_catch_null, error_uncaught_null_payload)",
    "limit-0": "1.6: `limit(0; f)` emits the first output of f; 1.7.1 emits nothing (jq 1.7 NEWS)",
    "modify-deferred-delete": "`p |= empty`: 1.6 deletes each path at once (`[1,2,3] | .[] |= empty` is [2]); 1.7.1 collects the paths and "
                              "deletes them after the loop (jq 1.7 NEWS, #2133)",
    "from-entries": "from_entries: 1.6 `map({(.key // .k // .name // .Name // .K // .Key): ...}) | add + {} // {}`; 1.7.1 as quoted from the "
                    "pinned binary in docs/compliance/jq/limitations.md (golden from_entries_*, error table)",
    "any-all-short-circuit": "any/all(gen; cond): 1.7.1 stops at the first decisive output (golden any_gen_cond_satisfied_before_error); "
                             "1.6 evaluates the generator to the end",
    "indices-overlap": "indices/index/rindex on strings: 1.6 skips overlapping matches, 1.7.1 reports them (jq 1.7 NEWS)",
    "walk-def": "walk(f): 1.6 rebuilds objects key by key, 1.7.1 is `def w: if type == \"object\" then map_values(w) ...` (jq 1.7 NEWS)",
    "if-without-else": "`if c then a end` (else branch = `.`) is new in 1.7 and does not compile in 1.6 (jq 1.7 NEWS)",
    "slice-sentence": "1.6 'Start and end indices of an array slice must be numbers' and missing start/end keys default; 1.7.1 "
                      "'Array/string slice indices must be integers' and missing keys are an error (jq-error-messages.tsv)",
    "uri-reserved": "@uri: 1.6 keeps ! * ' ( ) unescaped, 1.7.1 escapes every reserved character (jq 1.7 NEWS)",
    "number-literals": "1.7.1 keeps the canonical decimal literal of unchanged numbers (golden number_literal_*); only numbers whose "
                       "literal equals their shortest double rendering are admitted, so the difference cannot show",
}


class Unsupported(Exception):
    """The construct / value is outside the modelled fragment (never judged)."""


class JqError(Exception):
    def __init__(self, value):
        Exception.__init__(self)
        self.value = value


class _Wrapped(Exception):
    """1.7.1 TRY_END: an error raised by the continuation of a try body, in transit to beyond that try."""

    def __init__(self, err, owner):
        Exception.__init__(self)
        self.err = err
        self.owner = owner


class LabelObj:
    """The value `break $l` raises ({"__jq": n} in jq).  Opaque: observing it is outside the fragment."""

    def __init__(self, ident):
        self.ident = ident


# --------------------------------------------------------------------------------------- values --

def kind(v):
    if v is None:
        return "null"
    if v is True or v is False:
        return "boolean"
    if isinstance(v, float):
        return "number"
    if isinstance(v, str):
        return "string"
    if isinstance(v, list):
        return "array"
    if isinstance(v, dict):
        return "object"
    if isinstance(v, LabelObj):
        raise Unsupported("break label object observed as a value")
    if isinstance(v, int):
        raise AssertionError("int leaked into the value domain")
    raise AssertionError("bad value %r" % (v,))


KIND_ORDER = {"null": 0, "false": 1, "true": 2, "number": 3, "string": 4, "array": 5, "object": 6}


def _rank(v):
    if v is None:
        return 0
    if v is False:
        return 1
    if v is True:
        return 2
    return KIND_ORDER[kind(v)]


def utf8(s):
    return s.encode("utf-8", "surrogatepass")


def cmp_str(a, b):
    # jq compares strings as UTF-8 bytes (memcmp, then length) == code point order
    ab, bb = utf8(a), utf8(b)
    return (ab > bb) - (ab < bb)


class Model:
    """Holds the mode switches (1.7.1 vs compat16).  Reading `c16` records that the evaluation reached a point whose
    behaviour is on the documented change list (`sens`), so a 1.7.1-mode run that never set it is also the 1.6-mode answer."""

    def __init__(self, compat16=False):
        self._c16 = compat16
        self.sens = False

    @property
    def c16(self):
        self.sens = True
        return self._c16

    # -- total order (jv_cmp) --
    def cmp(self, a, b):
        ra, rb = _rank(a), _rank(b)
        if ra != rb:
            # nan: 1.7.1 treats a nan like null *when compared with a number* (below)
            return (ra > rb) - (ra < rb)
        if ra <= 2:
            return 0
        if ra == 3:
            if a != a or b != b:
                # a nan is compared as null against the other number => always "less" (golden nan_*; jq 1.6 behaves alike)
                if a != a:
                    return -1
                return 1
            return (a > b) - (a < b)
        if ra == 4:
            return cmp_str(a, b)
        if ra == 5:
            for x, y in zip(a, b):
                c = self.cmp(x, y)
                if c:
                    return c
            return (len(a) > len(b)) - (len(a) < len(b))
        ka, kb = sorted(a.keys(), key=utf8), sorted(b.keys(), key=utf8)
        c = self.cmp(ka, kb)
        if c:
            return c
        for key in ka:
            c = self.cmp(a[key], b[key])
            if c:
                return c
        return 0

    def equal(self, a, b):
        return self.cmp(a, b) == 0

    def sort(self, xs, keyf=None):
        import functools
        if keyf is None:
            return sorted(xs, key=functools.cmp_to_key(self.cmp))
        return sorted(xs, key=functools.cmp_to_key(lambda p, q: self.cmp(keyf(p), keyf(q))))


# --------------------------------------------------------------------------- number rendering --

def fmt_number(x):
    """jvp_dtoa_fmt: shortest round-trip digits; exponent form iff decpt <= -4 or decpt > ndigits + 15."""
    if x != x:
        return "null"
    if x == math.inf:
        x = 1.7976931348623157e308
    elif x == -math.inf:
        x = -1.7976931348623157e308
    if x == 0:
        return "-0" if math.copysign(1.0, x) < 0 else "0"
    sign = "-" if x < 0 else ""
    r = repr(abs(x))
    # extract digits and decimal exponent from Python's shortest repr
    if "e" in r or "E" in r:
        mant, ex = r.lower().split("e")
        ex = int(ex)
    else:
        mant, ex = r, 0
    if "." in mant:
        ip, fp = mant.split(".")
    else:
        ip, fp = mant, ""
    digits = (ip + fp).lstrip("0")
    decpt = len(ip.lstrip("0")) + ex if ip.strip("0") else ex - (len(fp) - len(fp.lstrip("0")))
    digits = digits.rstrip("0") or "0"
    if ip.strip("0") == "":
        # 0.00ddd: digits after stripping leading zeros of fp
        digits = fp.lstrip("0").rstrip("0") or "0"
    nd = len(digits)
    if decpt <= -4 or decpt > nd + 15:
        s = digits[0]
        if nd > 1:
            s += "." + digits[1:]
        e = decpt - 1
        s += "e" + ("-" if e < 0 else "+") + ("%02d" % abs(e))
        return sign + s
    if decpt <= 0:
        return sign + "0." + "0" * (-decpt) + digits
    if decpt >= nd:
        return sign + digits + "0" * (decpt - nd)
    return sign + digits[:decpt] + "." + digits[decpt:]


def canonical_literal(text):
    """Is this decimal literal one whose 1.7.1 rendering equals the shortest double rendering?
    (1.7.1 keeps the literal's canonical decimal form for unchanged numbers: 1.0 -> 1.0, 1e100 -> 1E+100.)"""
    try:
        x = float(text)
    except ValueError:
        return False
    if x != x or x in (math.inf, -math.inf):
        return False
    if abs(x) >= 1e15 and x != 0:
        return False
    return fmt_number(x) == text


# ------------------------------------------------------------------------------- JSON in / out --

def dump_string(s, ascii_only=False):
    out = ['"']
    for ch in s:
        c = ord(ch)
        if ch == '"':
            out.append('\\"')
        elif ch == "\\":
            out.append("\\\\")
        elif ch == "\n":
            out.append("\\n")
        elif ch == "\t":
            out.append("\\t")
        elif ch == "\r":
            out.append("\\r")
        elif ch == "\b":
            out.append("\\b")
        elif ch == "\f":
            out.append("\\f")
        elif c < 0x20 or c == 0x7f:
            out.append("\\u%04x" % c)
        elif c > 126 and ascii_only:
            if c >= 0x10000:
                c -= 0x10000
                out.append("\\u%04x\\u%04x" % (0xD800 | (c >> 10), 0xDC00 | (c & 0x3FF)))
            else:
                out.append("\\u%04x" % c)
        else:
            out.append(ch)
    out.append('"')
    return "".join(out)


def dump(v, sort_keys=False, ascii_only=False, indent=None, _lvl=0):
    k = kind(v)
    if k == "null":
        return "null"
    if k == "boolean":
        return "true" if v else "false"
    if k == "number":
        return fmt_number(v)
    if k == "string":
        return dump_string(v, ascii_only)
    if k == "array":
        if not v:
            return "[]"
        if indent is None:
            return "[" + ",".join(dump(x, sort_keys, ascii_only) for x in v) + "]"
        pad = " " * (indent * (_lvl + 1))
        return "[\n" + ",\n".join(pad + dump(x, sort_keys, ascii_only, indent, _lvl + 1) for x in v) + "\n" + " " * (indent * _lvl) + "]"
    keys = list(v.keys())
    if sort_keys:
        keys.sort(key=utf8)
    if not keys:
        return "{}"
    if indent is None:
        return "{" + ",".join(dump_string(key, ascii_only) + ":" + dump(v[key], sort_keys, ascii_only) for key in keys) + "}"
    pad = " " * (indent * (_lvl + 1))
    return "{\n" + ",\n".join(pad + dump_string(key, ascii_only) + ": " + dump(v[key], sort_keys, ascii_only, indent, _lvl + 1)
                              for key in keys) + "\n" + " " * (indent * _lvl) + "}"


def _num_hook(text):
    if not canonical_literal(text):
        raise Unsupported("number literal %s is not in canonical form (1.7.1 keeps literals)" % text)
    return float(text)


def _check_strings(v):
    if isinstance(v, str):
        for ch in v:
            c = ord(ch)
            if 0xD800 <= c <= 0xDFFF:
                raise Unsupported("lone surrogate in input")
    elif isinstance(v, list):
        for x in v:
            _check_strings(x)
    elif isinstance(v, dict):
        for a, b in v.items():
            _check_strings(a)
            _check_strings(b)


def parse_json(text):
    """One JSON document -> model value.  Duplicate keys: first position, last value (jq's object insert)."""
    def pairs(ps):
        d = {}
        for a, b in ps:
            d[a] = b
        return d
    try:
        v = json.loads(text, parse_float=_num_hook, parse_int=_num_hook, object_pairs_hook=pairs,
                       parse_constant=lambda c: (_ for _ in ()).throw(Unsupported("NaN/Infinity literal in input")))
    except ValueError as e:
        raise Unsupported("input is not one JSON document: %s" % e)
    _check_strings(v)
    return v


# ---------------------------------------------------------------------------------------- lexer --

KEYWORDS = {"def", "if", "then", "elif", "else", "end", "as", "reduce", "foreach", "try", "catch", "label", "import",
            "include", "and", "or", "not_kw_placeholder", "__loc__"}
KEYWORDS.discard("not_kw_placeholder")
OPS3 = ["?//", "//="]
OPS2 = ["|=", "+=", "-=", "*=", "/=", "%=", "==", "!=", "<=", ">=", "//", ".."]
OPS1 = list("|,.[](){}:;=<>+-*/%?$")


class Tok:
    __slots__ = ("t", "v", "pos")

    def __init__(self, t, v, pos):
        self.t, self.v, self.pos = t, v, pos

    def __repr__(self):
        return "%s:%r" % (self.t, self.v)


class ParseError(Exception):
    pass


def _isidstart(c):
    return c.isascii() and (c.isalpha() or c == "_")


def _isid(c):
    return c.isascii() and (c.isalnum() or c == "_")


def lex(src):
    toks = []
    i, n = 0, len(src)
    while i < n:
        c = src[i]
        if c in " \t\r\n":
            i += 1
            continue
        if c == "#":
            while i < n and src[i] != "\n":
                i += 1
            continue
        if c == '"':
            parts, i = lex_string(src, i)
            toks.append(Tok("str", parts, i))
            continue
        if c.isdigit() or (c == "." and i + 1 < n and src[i + 1].isdigit()):
            j = i
            while j < n and src[j].isdigit():
                j += 1
            if j < n and src[j] == ".":
                j += 1
                while j < n and src[j].isdigit():
                    j += 1
            if j < n and src[j] in "eE":
                k = j + 1
                if k < n and src[k] in "+-":
                    k += 1
                if k < n and src[k].isdigit():
                    while k < n and src[k].isdigit():
                        k += 1
                    j = k
            toks.append(Tok("num", src[i:j], i))
            i = j
            continue
        if c == "." and i + 1 < n and _isidstart(src[i + 1]):
            j = i + 1
            while j < n and _isid(src[j]):
                j += 1
            toks.append(Tok("field", src[i + 1:j], i))
            i = j
            continue
        if c == "$" and i + 1 < n and _isidstart(src[i + 1]):
            j = i + 1
            while j < n and (_isid(src[j]) or (src[j] == ":" and j + 2 < n and src[j + 1] == ":" and _isidstart(src[j + 2]))):
                j += 2 if src[j] == ":" else 1
            toks.append(Tok("binding", src[i + 1:j], i))
            i = j
            continue
        if c == "@" and i + 1 < n and _isid(src[i + 1]):
            j = i + 1
            while j < n and _isid(src[j]):
                j += 1
            toks.append(Tok("format", src[i:j], i))
            i = j
            continue
        if _isidstart(c):
            j = i
            while j < n and (_isid(src[j]) or (src[j] == ":" and j + 2 < n and src[j + 1] == ":" and _isidstart(src[j + 2]))):
                j += 2 if src[j] == ":" else 1
            w = src[i:j]
            toks.append(Tok("kw" if w in KEYWORDS else "id", w, i))
            i = j
            continue
        for ops in (OPS3, OPS2, OPS1):
            hit = None
            for o in ops:
                if src.startswith(o, i):
                    hit = o
                    break
            if hit:
                toks.append(Tok("op", hit, i))
                i += len(hit)
                break
        else:
            raise ParseError("unexpected character %r at %d" % (c, i))
    toks.append(Tok("eof", None, n))
    return toks


def lex_string(src, i):
    """src[i] == '"'.  Returns (parts, index after closing quote); parts = list of str | ('interp', source text)."""
    assert src[i] == '"'
    i += 1
    n = len(src)
    parts = []
    cur = []
    while True:
        if i >= n:
            raise ParseError("unterminated string")
        c = src[i]
        if c == '"':
            i += 1
            break
        if c == "\\":
            if i + 1 >= n:
                raise ParseError("bad escape")
            e = src[i + 1]
            if e == "(":
                # interpolation: find the matching paren, honouring nested strings
                depth = 1
                j = i + 2
                while j < n and depth:
                    if src[j] == '"':
                        _, j = lex_string(src, j)
                        continue
                    if src[j] == "(":
                        depth += 1
                    elif src[j] == ")":
                        depth -= 1
                    j += 1
                if depth:
                    raise ParseError("unterminated interpolation")
                if cur:
                    parts.append("".join(cur))
                    cur = []
                parts.append(("interp", src[i + 2:j - 1]))
                i = j
                continue
            m = {"n": "\n", "t": "\t", "r": "\r", "b": "\b", "f": "\f", "/": "/", "\\": "\\", '"': '"'}
            if e in m:
                cur.append(m[e])
                i += 2
                continue
            if e == "u":
                h = src[i + 2:i + 6]
                if len(h) != 4:
                    raise ParseError("bad \\u escape")
                cp = int(h, 16)
                i += 6
                if 0xD800 <= cp < 0xDC00 and src[i:i + 2] == "\\u":
                    lo = int(src[i + 2:i + 6], 16)
                    if 0xDC00 <= lo < 0xE000:
                        cp = 0x10000 + ((cp - 0xD800) << 10) + (lo - 0xDC00)
                        i += 6
                if 0xD800 <= cp < 0xE000:
                    raise Unsupported("lone surrogate escape in program string")
                cur.append(chr(cp))
                continue
            raise ParseError("bad escape \\%s" % e)
        cur.append(c)
        i += 1
    if cur or not parts:
        parts.append("".join(cur))
    return parts, i


# --------------------------------------------------------------------------------------- parser --

class Parser:
    def __init__(self, src):
        self.toks = lex(src)
        self.i = 0

    def peek(self):
        return self.toks[self.i]

    def next(self):
        t = self.toks[self.i]
        self.i += 1
        return t

    def isop(self, v):
        t = self.toks[self.i]
        return t.t == "op" and t.v == v

    def iskw(self, v):
        t = self.toks[self.i]
        return t.t == "kw" and t.v == v

    def expect_op(self, v):
        t = self.next()
        if t.t != "op" or t.v != v:
            raise ParseError("expected %r, got %r" % (v, t))

    def expect_kw(self, v):
        t = self.next()
        if t.t != "kw" or t.v != v:
            raise ParseError("expected %r, got %r" % (v, t))

    # Exp levels -----------------------------------------------------------------
    def parse_program(self):
        e = self.parse_pipe()
        if self.peek().t != "eof":
            raise ParseError("trailing tokens at %r" % self.peek())
        return e

    def parse_pipe(self):
        if self.iskw("def"):
            d = self.parse_def()
            rest = self.parse_pipe()
            return ("def",) + d + (rest,)
        lhs = self.parse_comma()
        if self.isop("|"):
            self.next()
            rhs = self.parse_pipe()
            return ("pipe", lhs, rhs)
        return lhs

    def parse_comma(self):
        lhs = self.parse_alt()
        while self.isop(","):
            self.next()
            rhs = self.parse_alt()
            lhs = ("comma", lhs, rhs)
        return lhs

    def parse_alt(self):
        lhs = self.parse_assign()
        if self.isop("//"):
            self.next()
            rhs = self.parse_alt()  # %right
            return ("alt", lhs, rhs)
        return lhs

    def parse_assign(self):
        lhs = self.parse_or()
        t = self.peek()
        if t.t == "op" and t.v in ("=", "|=", "+=", "-=", "*=", "/=", "%=", "//="):
            self.next()
            rhs = self.parse_alt_in_assign()
            return ("assign", t.v, lhs, rhs)
        return lhs

    def parse_alt_in_assign(self):
        # `a = b // c` parses as a = (b // c)?  No: '//' binds looser than '='; yacc gives (a = b) // c.
        return self.parse_or()

    def parse_or(self):
        lhs = self.parse_and()
        while self.iskw("or"):
            self.next()
            rhs = self.parse_and()
            lhs = ("or", lhs, rhs)
        return lhs

    def parse_and(self):
        lhs = self.parse_cmp()
        while self.iskw("and"):
            self.next()
            rhs = self.parse_cmp()
            lhs = ("and", lhs, rhs)
        return lhs

    def parse_cmp(self):
        lhs = self.parse_add()
        t = self.peek()
        if t.t == "op" and t.v in ("==", "!=", "<", "<=", ">", ">="):
            self.next()
            rhs = self.parse_add()
            return ("binop", t.v, lhs, rhs)
        return lhs

    def parse_add(self):
        lhs = self.parse_mul()
        while True:
            t = self.peek()
            if t.t == "op" and t.v in ("+", "-"):
                self.next()
                rhs = self.parse_mul()
                lhs = ("binop", t.v, lhs, rhs)
            else:
                return lhs

    def parse_mul(self):
        lhs = self.parse_unary()
        while True:
            t = self.peek()
            if t.t == "op" and t.v in ("*", "/", "%"):
                self.next()
                rhs = self.parse_unary()
                lhs = ("binop", t.v, lhs, rhs)
            else:
                return lhs

    def parse_unary(self):
        if self.isop("-"):
            self.next()
            return ("neg", self.parse_mul())
        return self.parse_postfix()

    # Terms ------------------------------------------------------------------------
    def parse_postfix(self):
        return self.parse_suffixes(self.parse_primary(), True)

    def parse_suffixes(self, t, allow_as):
        while True:
            tk = self.peek()
            if tk.t == "field":
                self.next()
                t = self.opt(("index", t, ("lit", tk.v)))
            elif tk.t == "op" and tk.v == "." and self.toks[self.i + 1].t == "str":
                self.next()
                s = self.parse_string_token(None)
                t = self.opt(("index", t, s))
            elif tk.t == "op" and tk.v == "." and self.toks[self.i + 1].t == "op" and self.toks[self.i + 1].v == "[":
                self.next()
                continue
            elif tk.t == "op" and tk.v == "[":
                t = self.opt(self.parse_bracket_suffix(t))
            elif tk.t == "op" and tk.v == "?":
                self.next()
                t = ("try", t, None)
            elif allow_as and tk.t == "kw" and tk.v == "as":
                self.next()
                pats = self.parse_patterns()
                self.expect_op("|")
                body = self.parse_pipe()
                return ("as", t, pats, body)
            else:
                return t

    def opt(self, node):
        """`Term FIELD '?'`, `Term '[' Exp ']' '?'`, `Term '[' ']' '?'`, slices: only that one step is optional."""
        if self.isop("?"):
            self.next()
            return node + (True,)
        return node + (False,)

    def parse_bracket_suffix(self, t):
        self.expect_op("[")
        if self.isop("]"):
            self.next()
            return ("iter", t)
        if self.isop(":"):
            self.next()
            hi = self.parse_pipe()
            self.expect_op("]")
            return ("slice", t, None, hi)
        e = self.parse_pipe()
        if self.isop(":"):
            self.next()
            if self.isop("]"):
                self.next()
                return ("slice", t, e, None)
            hi = self.parse_pipe()
            self.expect_op("]")
            return ("slice", t, e, hi)
        self.expect_op("]")
        return ("index", t, e)

    def parse_string_token(self, fmt):
        tk = self.next()
        assert tk.t == "str"
        parts = []
        for p in tk.v:
            if isinstance(p, str):
                parts.append(p)
            else:
                parts.append(Parser(p[1]).parse_program())
        if len(parts) == 1 and isinstance(parts[0], str) and fmt is None:
            return ("lit", parts[0])
        return ("str", fmt, parts)

    def parse_primary(self):
        tk = self.peek()
        if tk.t == "num":
            self.next()
            if not canonical_literal(tk.v):
                raise Unsupported("program number literal %s not in canonical form" % tk.v)
            return ("lit", float(tk.v))
        if tk.t == "str":
            return self.parse_string_token(None)
        if tk.t == "format":
            self.next()
            if self.peek().t == "str":
                return self.parse_string_token(tk.v)
            return ("format", tk.v)
        if tk.t == "field":
            self.next()
            return self.opt(("index", ("id",), ("lit", tk.v)))
        if tk.t == "binding":
            self.next()
            if tk.v == "__loc__":
                raise Unsupported("$__loc__")
            if tk.v == "ENV":
                raise Unsupported("$ENV")
            return ("var", tk.v)
        if tk.t == "op":
            if tk.v == "..":
                self.next()
                return ("call", "recurse", ())
            if tk.v == ".":
                self.next()
                nx = self.peek()
                if nx.t == "str":
                    s = self.parse_string_token(None)
                    return self.opt(("index", ("id",), s))
                if nx.t == "op" and nx.v == "[":
                    return self.opt(self.parse_bracket_suffix(("id",)))
                return ("id",)
            if tk.v == "(":
                self.next()
                e = self.parse_pipe()
                self.expect_op(")")
                return ("paren", e)
            if tk.v == "[":
                self.next()
                if self.isop("]"):
                    self.next()
                    return ("array", None)
                e = self.parse_pipe()
                self.expect_op("]")
                return ("array", e)
            if tk.v == "{":
                return self.parse_object()
            if tk.v == "-":
                self.next()
                return ("neg", self.parse_postfix())
            if tk.v == "?//":
                raise Unsupported("?// destructuring alternation")
        if tk.t == "kw":
            if tk.v == "if":
                return self.parse_if()
            if tk.v == "try":
                self.next()
                body = self.parse_post_try()
                handler = None
                if self.iskw("catch"):
                    self.next()
                    handler = self.parse_post_try()
                return ("try", body, None) if handler is None else ("trycatch", body, handler)
            if tk.v == "reduce":
                self.next()
                src = self.parse_postfix_noas()
                self.expect_kw("as")
                pats = self.parse_patterns()
                self.expect_op("(")
                init = self.parse_pipe()
                self.expect_op(";")
                upd = self.parse_pipe()
                self.expect_op(")")
                return ("reduce", src, pats, init, upd)
            if tk.v == "foreach":
                self.next()
                src = self.parse_postfix_noas()
                self.expect_kw("as")
                pats = self.parse_patterns()
                self.expect_op("(")
                init = self.parse_pipe()
                self.expect_op(";")
                upd = self.parse_pipe()
                ext = None
                if self.isop(";"):
                    self.next()
                    ext = self.parse_pipe()
                self.expect_op(")")
                return ("foreach", src, pats, init, upd, ext)
            if tk.v == "label":
                self.next()
                b = self.next()
                if b.t != "binding":
                    raise ParseError("label needs $name")
                self.expect_op("|")
                body = self.parse_pipe()
                return ("label", b.v, body)
            if tk.v == "def":
                d = self.parse_def()
                rest = self.parse_pipe()
                return ("def",) + d + (rest,)
            if tk.v in ("import", "include"):
                raise Unsupported("modules")
        if tk.t == "id":
            self.next()
            if tk.v == "break":
                b = self.next()
                if b.t != "binding":
                    raise ParseError("break needs $label")
                return ("break", b.v)
            args = []
            if self.isop("("):
                self.next()
                args.append(self.parse_pipe())
                while self.isop(";"):
                    self.next()
                    args.append(self.parse_pipe())
                self.expect_op(")")
            return ("call", tk.v, tuple(args))
        raise ParseError("unexpected token %r" % tk)

    def parse_postfix_noas(self):
        # the Term before `as` in reduce/foreach, try bodies, object values: a postfix term without the `as` continuation
        return self.parse_suffixes(self.parse_primary(), False)

    def parse_post_try(self):
        # body / handler of try: binds tighter than every binary operator ("try"/"catch" have the highest precedence)
        if self.isop("-"):
            self.next()
            return ("neg", self.parse_post_try())
        return self.parse_postfix_noas()

    def parse_if(self):
        self.expect_kw("if")
        c = self.parse_pipe()
        self.expect_kw("then")
        a = self.parse_pipe()
        if self.iskw("elif"):
            # rewrite `elif` as a nested if sharing the same `end`
            self.toks[self.i] = Tok("kw", "if", self.toks[self.i].pos)
            b = self.parse_if()
            return ("if", c, a, b)
        if self.iskw("else"):
            self.next()
            b = self.parse_pipe()
            self.expect_kw("end")
            return ("if", c, a, b)
        self.expect_kw("end")
        return ("if", c, a, None)

    def parse_def(self):
        self.expect_kw("def")
        name = self.next()
        if name.t not in ("id", "kw"):
            raise ParseError("bad def name")
        params = []
        if self.isop("("):
            self.next()
            while True:
                p = self.next()
                if p.t == "binding":
                    params.append(("$", p.v))
                elif p.t in ("id", "kw"):
                    params.append(("f", p.v))
                else:
                    raise ParseError("bad parameter")
                if self.isop(";"):
                    self.next()
                    continue
                self.expect_op(")")
                break
        self.expect_op(":")
        body = self.parse_pipe()
        self.expect_op(";")
        return (name.v, tuple(params), body)

    def parse_patterns(self):
        p = self.parse_pattern()
        if self.isop("?//"):
            raise Unsupported("?// destructuring alternation")
        return p

    def parse_pattern(self):
        tk = self.next()
        if tk.t == "binding":
            return ("pvar", tk.v)
        if tk.t == "op" and tk.v == "[":
            items = [self.parse_pattern()]
            while self.isop(","):
                self.next()
                items.append(self.parse_pattern())
            self.expect_op("]")
            return ("parr", tuple(items))
        if tk.t == "op" and tk.v == "{":
            ents = []
            while True:
                k = self.peek()
                if k.t == "binding":
                    self.next()
                    if self.isop(":"):
                        self.next()
                        ents.append((("keyvar", k.v), self.parse_pattern()))
                    else:
                        ents.append((("keyvar", k.v), None))
                elif k.t in ("id", "kw"):
                    self.next()
                    self.expect_op(":")
                    ents.append((("lit", k.v), self.parse_pattern()))
                elif k.t == "str":
                    s = self.parse_string_token(None)
                    self.expect_op(":")
                    ents.append((s, self.parse_pattern()))
                elif k.t == "op" and k.v == "(":
                    self.next()
                    e = self.parse_pipe()
                    self.expect_op(")")
                    self.expect_op(":")
                    ents.append((e, self.parse_pattern()))
                else:
                    raise ParseError("bad object pattern")
                if self.isop(","):
                    self.next()
                    continue
                self.expect_op("}")
                break
            return ("pobj", tuple(ents))
        raise ParseError("bad pattern at %r" % tk)

    def parse_object(self):
        self.expect_op("{")
        ents = []
        if self.isop("}"):
            self.next()
            return ("object", ())
        while True:
            k = self.peek()
            if k.t == "binding":
                self.next()
                if k.v == "__loc__":
                    raise Unsupported("$__loc__")
                key, val = ("lit", k.v), ("var", k.v)
                if self.isop(":"):
                    raise ParseError("{$x: ...} is not jq")
                ents.append((key, val))
            elif k.t in ("id", "kw"):
                self.next()
                key = ("lit", k.v)
                if self.isop(":"):
                    self.next()
                    ents.append((key, self.parse_objval()))
                else:
                    ents.append((key, ("index", ("id",), ("lit", k.v), False)))
            elif k.t == "num":
                raise Unsupported("numeric object key literal")
            elif k.t == "str" or k.t == "format":
                if k.t == "format":
                    self.next()
                    s = self.parse_string_token(k.v)
                else:
                    s = self.parse_string_token(None)
                if self.isop(":"):
                    self.next()
                    ents.append((s, self.parse_objval()))
                else:
                    ents.append((s, ("index", ("id",), s, False)))
            elif k.t == "op" and k.v == "(":
                self.next()
                e = self.parse_pipe()
                self.expect_op(")")
                self.expect_op(":")
                ents.append((("paren", e), self.parse_objval()))
            else:
                raise ParseError("bad object key %r" % k)
            if self.isop(","):
                self.next()
                continue
            self.expect_op("}")
            break
        return ("object", tuple(ents))

    def parse_objval(self):
        # ExpD: ExpD '|' ExpD | '-' ExpD | Term
        if self.isop("-"):
            self.next()
            lhs = ("neg", self.parse_objval_term())
        else:
            lhs = self.parse_objval_term()
        if self.isop("|"):
            self.next()
            return ("pipe", lhs, self.parse_objval())
        return lhs

    def parse_objval_term(self):
        return self.parse_postfix_noas()


def parse(src):
    return Parser(src).parse_program()


# =================================================================================== evaluator ==

def trunc_dump(v, bufsize=15):
    """jv_dump_string_trunc: byte-wise truncation to bufsize-1 bytes, last three replaced by '...'."""
    b = utf8(dump(v))
    if len(b) > bufsize - 1:
        b = b[:bufsize - 4] + b"..."
    try:
        return b.decode("utf-8")
    except UnicodeDecodeError:
        # jq emits a split multi-byte character here; limitations.md documents that succinctly cannot
        raise Unsupported("DIVERGENCE:trunc-multibyte")


def kind_name(v):
    return kind(v)


def err(msg):
    return JqError(msg)


def type_error(v, msg):
    return JqError("%s (%s) %s" % (kind(v), trunc_dump(v), msg))


def type_error2(a, b, msg):
    return JqError("%s (%s) and %s (%s) %s" % (kind(a), trunc_dump(a), kind(b), trunc_dump(b), msg))


def truthy(v):
    return not (v is None or v is False)


def is_int_valued(x):
    return x == x and x not in (math.inf, -math.inf) and x == math.floor(x)


class PathState:
    __slots__ = ("path", "vap", "tok", "nest")

    def __init__(self):
        self.path = None   # None: not tracking; tuple: components so far
        self.vap = None
        self.tok = None
        self.nest = 0

    def snap(self):
        return (self.path, self.vap, self.tok, self.nest)

    def restore(self, s):
        self.path, self.vap, self.tok, self.nest = s


class Closure:
    __slots__ = ("params", "body", "env", "name")

    def __init__(self, name, params, body, env):
        self.name, self.params, self.body, self.env = name, params, body, env


class ParamClosure:
    __slots__ = ("ast", "env")

    def __init__(self, ast, env):
        self.ast, self.env = ast, env


class Env:
    """Persistent environment: linked variables and functions."""
    __slots__ = ("vars", "funcs")

    def __init__(self, vars_=None, funcs=None):
        self.vars, self.funcs = vars_, funcs

    def bind_var(self, name, val, tok=None):
        return Env((name, (val, tok), self.vars), self.funcs)

    def bind_func(self, key, clo):
        return Env(self.vars, (key, clo, self.funcs))

    def var(self, name):
        n = self.vars
        while n is not None:
            if n[0] == name:
                return n[1]
            n = n[2]
        raise ParseError("$%s is not defined" % name)

    def func(self, key):
        n = self.funcs
        while n is not None:
            if n[0] == key:
                return n[1]
            n = n[2]
        return None


class Budget(Exception):
    pass


class Interp(Model):
    def __init__(self, compat16=False, budget=400000):
        Model.__init__(self, compat16)
        self.st = PathState()
        self.budget0 = budget
        self.steps = 0
        self.label_counter = 0
        self.flag_div = True     # raise Unsupported("DIVERGENCE:<key>") on constructs limitations.md lists (off while binding)
        self.natives = make_natives(self)
        self.builtin_env = None
        self.builtin_env = self._load_builtins()

    # ---- public API --------------------------------------------------------------------------
    def run(self, ast, inp, named=None, emit=None):
        """Run a parsed program on one input. Returns (outputs list, error value or NOERR)."""
        self.st = PathState()
        self.steps = 0
        self.sens = False      # set when the run touched a construct on the documented 1.6 -> 1.7.1 change list
        self.scalar_identity = False
        outs = []
        env = self.builtin_env
        for n, val in (named or {}).items():
            env = env.bind_var(n, val)

        def k(v, tok):
            check_output(v)
            outs.append(v)
        try:
            self.ev(ast, env, inp, None, k)
        except JqError as e:
            return outs, e.value
        except _Wrapped as w:
            return outs, w.err.value
        except RecursionError:
            raise Unsupported("recursion too deep for the model")
        except Budget:
            raise Unsupported("evaluation budget exceeded")
        return outs, NOERR

    # ---- builtins written in jq ----------------------------------------------------------------
    def _load_builtins(self):
        env = Env()
        text = BUILTINS_JQ + (BUILTINS_JQ_16 if self._c16 else BUILTINS_JQ_171)
        p = Parser(text + " .")
        ast = p.parse_program()
        while ast[0] == "def":
            _, name, params, body, rest = ast
            clo = Closure(name, params, body, None)
            env = env.bind_func((name, len(params)), clo)
            clo.env = env
            ast = rest
        return env

    # ---- helpers -----------------------------------------------------------------------------------
    def tracking(self):
        st = self.st
        return st.path is not None and st.nest == 0

    def intact(self, v, tok):
        st = self.st
        if st.path is None or st.nest:
            return True
        if tok is not None and tok is st.tok:
            return True
        if tok is FRESH and not (v is None or v is True or v is False or isinstance(v, float)):
            return False
        if self.strict_equal(v, st.vap):
            if v is None or v is True or v is False:
                self.scalar_identity = True     # jq accepts a non-path result because null/true/false are identical by value
                return True
            raise Unsupported("path identity of equal values is not modelled")
        return False

    def strict_equal(self, a, b):
        try:
            return self.cmp(a, b) == 0 and not (isinstance(a, float) and a != a)
        except Unsupported:
            return False

    def subexp(self, ast, env, v, tok, k):
        st = self.st
        st.nest += 1
        saved = st.nest

        def k2(o, t):
            st.nest = saved - 1
            try:
                k(o, t)
            finally:
                st.nest = saved
        try:
            self.ev(ast, env, v, tok, k2)
        finally:
            st.nest = saved - 1

    def path_step(self, key, val, k):
        """Emit `val` reached from the current tracked value through `key` (path_append + push)."""
        st = self.st
        if st.path is None or st.nest:
            k(val, None)
            return
        s = st.snap()
        tok = object()
        st.path = st.path + (key,) if not isinstance(key, list) else st.path + tuple(key)
        st.vap = val
        st.tok = tok
        try:
            k(val, tok)
        finally:
            st.restore(s)

    # ---- the evaluator -----------------------------------------------------------------------------
    def ev(self, ast, env, v, tok, k):
        self.steps += 1
        if self.steps > self.budget0:
            raise Budget()
        getattr(self, "ev_" + ast[0])(ast, env, v, tok, k)

    def ev_id(self, ast, env, v, tok, k):
        k(v, tok)

    def ev_paren(self, ast, env, v, tok, k):
        self.ev(ast[1], env, v, tok, k)

    def ev_lit(self, ast, env, v, tok, k):
        k(ast[1], FRESH if isinstance(ast[1], str) else None)

    def ev_var(self, ast, env, v, tok, k):
        val, t = env.var(ast[1])
        k(val, t)

    def ev_pipe(self, ast, env, v, tok, k):
        b = ast[2]
        self.ev(ast[1], env, v, tok, lambda o, t: self.ev(b, env, o, t, k))

    def ev_comma(self, ast, env, v, tok, k):
        self.ev(ast[1], env, v, tok, k)
        self.ev(ast[2], env, v, tok, k)

    def ev_neg(self, ast, env, v, tok, k):
        def kk(o, t):
            if kind(o) != "number":
                raise type_error(o, "cannot be negated")
            k(-o, None)
        self.ev(ast[1], env, v, tok, kk)

    def ev_binop(self, ast, env, v, tok, k):
        op, a, b = ast[1], ast[2], ast[3]
        f = self.natives["binop"]

        def kb(bv, _):
            self.subexp(a, env, v, tok, lambda av, _t: k(f(op, av, bv), None))
        self.subexp(b, env, v, tok, kb)

    def ev_and(self, ast, env, v, tok, k):
        b = ast[2]

        def ka(av, _):
            if truthy(av):
                self.ev(b, env, v, tok, lambda bv, _t: k(truthy(bv), None))
            else:
                k(False, None)
        self.ev(ast[1], env, v, tok, ka)

    def ev_or(self, ast, env, v, tok, k):
        b = ast[2]

        def ka(av, _):
            if truthy(av):
                k(True, None)
            else:
                self.ev(b, env, v, tok, lambda bv, _t: k(truthy(bv), None))
        self.ev(ast[1], env, v, tok, ka)

    def ev_alt(self, ast, env, v, tok, k):
        found = [False]

        def ka(o, t):
            if truthy(o):
                found[0] = True
                k(o, t)
        self.ev(ast[1], env, v, tok, ka)
        if not found[0]:
            self.ev(ast[2], env, v, tok, k)

    def ev_if(self, ast, env, v, tok, k):
        _, c, a, b = ast
        if b is None and self.c16:
            raise Unsupported("NOCOMPILE16:if without else")

        def kc(cv, _):
            if truthy(cv):
                self.ev(a, env, v, tok, k)
            elif b is None:
                k(v, tok)
            else:
                self.ev(b, env, v, tok, k)
        self.subexp(c, env, v, tok, kc)

    # try / catch --------------------------------------------------------------------------------
    def _try(self, run_body, on_error, k):
        """run_body(k2) evaluates the body; on_error(err) is called when the body raised."""
        st = self.st
        saved = st.snap()
        if self._c16:
            try:
                run_body(k)
                return
            except JqError as e:
                st.restore(saved)
                caught = e
        else:
            me = object()

            def k2(o, t):
                try:
                    k(o, t)
                except JqError as e:
                    self.sens = True       # 1.6 would have caught this downstream error here
                    raise _Wrapped(e, me)
            try:
                run_body(k2)
                return
            except JqError as e:
                st.restore(saved)
                caught = e
            except _Wrapped as w:
                if w.owner is me:
                    raise w.err
                raise
        on_error(caught)

    def ev_try(self, ast, env, v, tok, k):
        # `f?` and `try f`: every error (including `break`) is swallowed
        self._try(lambda k2: self.ev(ast[1], env, v, tok, k2), lambda e: None, k)

    def ev_trycatch(self, ast, env, v, tok, k):
        h = ast[2]

        def on_error(e):
            if isinstance(e.value, LabelObj) and self.c16:
                raise e   # 1.6 gen_try_handler re-raises internal errors (break)
            self.ev(h, env, e.value, None, k)
        self._try(lambda k2: self.ev(ast[1], env, v, tok, k2), on_error, k)

    def ev_label(self, ast, env, v, tok, k):
        self.label_counter += 1
        lab = LabelObj(self.label_counter)
        env2 = env.bind_var("*label-" + ast[1], lab)

        def on_error(e):
            if e.value is lab:
                return
            raise e
        self._try(lambda k2: self.ev(ast[2], env2, v, tok, k2), on_error, k)

    def ev_break(self, ast, env, v, tok, k):
        lab, _ = env.var("*label-" + ast[1])
        raise JqError(lab)

    # binding / folding -----------------------------------------------------------------------------
    def bind_pattern(self, pat, env, val, tok, body_env_k):
        """Destructure `val` by `pat`, call body_env_k(env2) for each binding combination."""
        if pat[0] == "pvar":
            body_env_k(env.bind_var(pat[1], val, tok))
            return
        if self.tracking():
            raise Unsupported("destructuring pattern while path tracking")
        if pat[0] == "parr":
            def go(i, e):
                if i == len(pat[1]):
                    body_env_k(e)
                    return
                item = self.natives["index"](val, float(i))
                self.bind_pattern(pat[1][i], e, item, None, lambda e2: go(i + 1, e2))
            go(0, env)
            return
        if pat[0] == "pobj":
            def go(i, e):
                if i == len(pat[1]):
                    body_env_k(e)
                    return
                keyspec, sub = pat[1][i]

                def with_key(kv, e_in):
                    item = self.natives["index"](val, kv)
                    if keyspec[0] == "keyvar":
                        e_in = e_in.bind_var(keyspec[1], item)
                    if sub is None:
                        go(i + 1, e_in)
                    else:
                        self.bind_pattern(sub, e_in, item, None, lambda e2: go(i + 1, e2))
                if keyspec[0] == "keyvar":
                    with_key(keyspec[1], e)
                elif keyspec[0] == "lit":
                    with_key(keyspec[1], e)
                else:
                    # computed key: evaluated against the value being destructured ... jq evaluates it on `.` of the
                    # destructuring's input (DUP); outside what the recorded traces pin -> keep literal strings only
                    def kk(kv, _):
                        if kind(kv) != "string":
                            raise err("Cannot use %s (%s) as object key" % (kind(kv), trunc_dump(kv)))
                        with_key(kv, e)
                    self.subexp(keyspec, e, val, None, kk)
            go(0, env)
            return
        raise AssertionError(pat)

    def ev_as(self, ast, env, v, tok, k):
        _, src, pat, body = ast
        self.subexp(src, env, v, tok,
                    lambda sv, st_: self.bind_pattern(pat, env, sv, st_, lambda e2: self.ev(body, e2, v, tok, k)))

    def ev_reduce(self, ast, env, v, tok, k):
        _, src, pat, init, upd = ast
        st = self.st

        def k_init(iv, itok):
            res = [iv, itok]
            snap = st.snap()

            def k_src(x, xtok):
                def with_env(e2):
                    cur, ctok = res
                    res[0], res[1] = None, None

                    def k_body(o, ot):
                        res[0], res[1] = o, ot
                    self.ev(upd, e2, cur, ctok, k_body)
                self.bind_pattern(pat, env, x, xtok, with_env)
            self.ev(src, env, v, tok, k_src)
            st.restore(snap)
            k(res[0], res[1])
        self.ev(init, env, v, tok, k_init)

    def ev_foreach(self, ast, env, v, tok, k):
        _, src, pat, init, upd, ext = ast

        def k_init(iv, itok):
            state = [iv, itok]

            def k_src(x, xtok):
                def with_env(e2):
                    cur, ctok = state
                    state[0], state[1] = None, None

                    def k_upd(o, ot):
                        state[0], state[1] = o, ot
                        if ext is None:
                            k(o, ot)
                        else:
                            self.ev(ext, e2, o, ot, k)
                    self.ev(upd, e2, cur, ctok, k_upd)
                self.bind_pattern(pat, env, x, xtok, with_env)
            self.ev(src, env, v, tok, k_src)
        self.ev(init, env, v, tok, k_init)

    # construction -----------------------------------------------------------------------------------
    def ev_array(self, ast, env, v, tok, k):
        acc = []
        if ast[1] is not None:
            self.ev(ast[1], env, v, tok, lambda o, _t: acc.append(o))
        k(acc, FRESH)

    def ev_object(self, ast, env, v, tok, k):
        ents = ast[1]

        def go(i, obj):
            if i == len(ents):
                k(obj, FRESH)
                return
            kast, vast = ents[i]
            if kast[0] != "lit" and self.flag_div:
                # limitations.md: succinctly refuses a key that yields zero or several outputs (#354) -> excluded by construct
                ks = []
                try:
                    self.subexp(kast, env, v, tok, lambda o, _t: ks.append(o))
                except JqError:
                    if ks:
                        raise Unsupported("DIVERGENCE:object-key-multi")
                    raise
                if len(ks) != 1:
                    raise Unsupported("DIVERGENCE:object-key-multi")

            def with_key(kv, _):
                def with_val(vv, _t):
                    if kind(kv) != "string":
                        raise err("Cannot use %s (%s) as object key" % (kind(kv), trunc_dump(kv)))
                    o2 = dict(obj)
                    o2[kv] = vv
                    go(i + 1, o2)
                self.subexp(vast, env, v, tok, with_val)
            self.subexp(kast, env, v, tok, with_key)
        go(0, {})

    def ev_str(self, ast, env, v, tok, k):
        _, fmt, parts = ast
        fname = fmt or "@text"
        fmtf = self.natives["format"]
        # left-nested `+` chain, right operand of each `+` is the outer loop: iterate parts from the last to the first
        n = len(parts)

        def go(i, suffix):
            if i < 0:
                k(suffix, FRESH)
                return
            p = parts[i]
            if isinstance(p, str):
                go(i - 1, p + suffix)
            else:
                self.subexp(p, env, v, tok, lambda o, _t: go(i - 1, fmtf(fname, o) + suffix))
        go(n - 1, "")

    def ev_format(self, ast, env, v, tok, k):
        k(self.natives["format"](ast[1], v), None)

    # path steps -------------------------------------------------------------------------------------
    def ev_index(self, ast, env, v, tok, k):
        _, t, kx = ast[0], ast[1], ast[2]
        opt = len(ast) > 3 and ast[3]
        index = self.natives["index"]

        def with_key(key, _):
            def with_term(tv, ttok):
                if not self.intact(tv, ttok):
                    raise err("Invalid path expression near attempt to access element %s of %s"
                              % (trunc_dump(key, 15), trunc_dump(tv, 30)))
                try:
                    r = index(tv, key)
                except JqError:
                    if opt:
                        return
                    raise
                self.path_step(key, r, k)
            self.ev(t, env, v, tok, with_term)
        self.subexp(kx, env, v, tok, with_key)

    def ev_slice(self, ast, env, v, tok, k):
        _, t, lo, hi = ast[0], ast[1], ast[2], ast[3]
        opt = len(ast) > 4 and ast[4]
        index = self.natives["index"]

        def with_lo(lov, _):
            def with_hi(hiv, _t):
                key = {"start": lov, "end": hiv}

                def with_term(tv, ttok):
                    if not self.intact(tv, ttok):
                        raise err("Invalid path expression near attempt to access element %s of %s"
                                  % (trunc_dump(key, 15), trunc_dump(tv, 30)))
                    try:
                        r = index(tv, key)
                    except JqError:
                        if opt:
                            return
                        raise
                    self.path_step(key, r, k)
                self.ev(t, env, v, tok, with_term)
            if hi is None:
                with_hi(None, None)
            else:
                self.subexp(hi, env, v, tok, with_hi)
        if lo is None:
            with_lo(None, None)
        else:
            self.subexp(lo, env, v, tok, with_lo)

    def ev_iter(self, ast, env, v, tok, k):
        t = ast[1]
        opt = len(ast) > 2 and ast[2]

        def with_term(tv, ttok):
            if not self.intact(tv, ttok):
                raise err("Invalid path expression near attempt to iterate through %s" % trunc_dump(tv, 30))
            kd = kind(tv)
            if kd == "array":
                for i, x in enumerate(list(tv)):
                    self.path_step(float(i), x, k)
            elif kd == "object":
                for key in list(tv.keys()):
                    self.path_step(key, tv[key], k)
            elif not opt:
                raise err("Cannot iterate over %s%s" % (kd, "" if tv is None and False else " (%s)" % trunc_dump(tv)))
        self.ev(t, env, v, tok, with_term)

    def ev_assign(self, ast, env, v, tok, k):
        _, op, lhs, rhs = ast
        if op == "=":
            self.ev(("call", "_assign", (lhs, rhs)), env, v, tok, k)
        elif op == "|=":
            self.ev(("call", "_modify", (lhs, rhs)), env, v, tok, k)
        else:
            # gen_update / gen_definedor_assign:  rhs as $tmp | lhs |= (. op $tmp)   (rhs evaluated in place, once per output)
            if op == "//=":
                upd = ("alt", ("id",), ("var", "*tmp"))
            else:
                upd = ("binop", op[:-1], ("id",), ("var", "*tmp"))
            self.ev(rhs, env, v, tok,
                    lambda rv, rt: self.ev(("call", "_modify", (lhs, upd)), env.bind_var("*tmp", rv, rt), v, tok, k))

    # functions ----------------------------------------------------------------------------------------
    def ev_def(self, ast, env, v, tok, k):
        _, name, params, body, rest = ast
        clo = Closure(name, params, body, None)
        env2 = env.bind_func((name, len(params)), clo)
        clo.env = env2
        self.ev(rest, env2, v, tok, k)

    def ev_call(self, ast, env, v, tok, k):
        name, args = ast[1], ast[2]
        key = (name, len(args))
        target = env.func(key)
        if target is None and self.builtin_env is not None and env is not self.builtin_env:
            target = self.builtin_env.func(key)
        if isinstance(target, ParamClosure):
            self.ev(target.ast, target.env, v, tok, k)
            return
        if isinstance(target, Closure):
            if key in SENSITIVE_DEFS:
                self.sens = True
            self.call_closure(target, args, env, v, tok, k)
            return
        special = getattr(self, "sp_" + name + "_" + str(len(args)), None)
        if special is not None:
            special(args, env, v, tok, k)
            return
        nat = self.natives.get(key)
        if nat is None:
            raise Unsupported("function %s/%d is outside the fragment" % key)
        # C function: arguments are sub-expressions, LAST argument is the outermost loop
        vals = [None] * len(args)

        def go(i):
            if i < 0:
                k(nat(v, *vals), None)
                return

            def kk(o, _):
                vals[i] = o
                go(i - 1)
            self.subexp(args[i], env, v, tok, kk)
        go(len(args) - 1)

    def call_closure(self, clo, args, env, v, tok, k):
        cenv = clo.env
        dollar = []
        for (pk, pn), a in zip(clo.params, args):
            cenv = cenv.bind_func((pn, 0), ParamClosure(a, env))
            if pk == "$":
                dollar.append((pn, a))

        def go(i, e):
            if i == len(dollar):
                self.ev(clo.body, e, v, tok, k)
                return
            pn, a = dollar[i]
            self.subexp(a, env, v, tok, lambda o, t: go(i + 1, e.bind_var(pn, o, t)))
        go(0, cenv)

    # special forms implemented by the VM rather than by C functions or jq definitions -------------------
    def sp_empty_0(self, args, env, v, tok, k):
        return

    def sp_not_0(self, args, env, v, tok, k):
        k(not truthy(v), None)

    def sp_error_0(self, args, env, v, tok, k):
        if v is None and self.c16:
            return      # 1.6: error(null) is indistinguishable from backtracking
        raise JqError(v)

    def sp_path_1(self, args, env, v, tok, k):
        st = self.st
        outer = st.snap()
        root_tok = object()
        st.path, st.vap, st.tok, st.nest = (), v, root_tok, 0

        def kp(o, t):
            if not self.intact(o, t):
                raise err("Invalid path expression with result %s" % trunc_dump(o, 30))
            p = list(st.path)
            inner = st.snap()
            st.restore(outer)
            try:
                k(p, None)
            finally:
                st.restore(inner)
        try:
            self.ev(args[0], env, v, root_tok, kp)
        finally:
            st.restore(outer)

    def sp_getpath_1(self, args, env, v, tok, k):
        getpath = self.natives["getpath"]

        def kk(p, _):
            st = self.st
            try:
                r = getpath(v, p)
            except JqError:
                raise
            if st.path is None or st.nest:
                k(r, None)
                return
            # _jq_path_append: silently untracked if the input is not the tracked value
            if not self.intact(v, tok):
                k(r, None)
                return
            if kind(p) == "array":
                self.path_step(list(p), r, k)
            else:
                self.path_step(p, r, k)
        self.subexp(args[0], env, v, tok, kk)

    def sp_range_2(self, args, env, v, tok, k):
        # bytecoded: `$__prog.start as $s | $__prog.end as $e | RANGE` with both evaluated in place (not SUBEXP);
        # while path tracking only literal bounds are modelled
        if self.tracking() and not all(a[0] in ("lit", "var", "neg") for a in args):
            raise Unsupported("range with computed bounds while path tracking")

        def ks(s, _):
            def ke(e, _t):
                if kind(s) != "number" or kind(e) != "number":
                    raise err("Range bounds must be numeric")
                x = s
                while x < e:
                    k(x, None)
                    x = x + 1
            self.ev(args[1], env, v, tok, ke)
        self.ev(args[0], env, v, tok, ks)


# jq-coded builtins whose 1.6 and 1.7.1 definitions differ (BUILTINS_JQ_16 / BUILTINS_JQ_171)
SENSITIVE_DEFS = {("_modify", 2), ("limit", 2), ("any", 2), ("all", 2), ("from_entries", 0), ("walk", 1)}


class _Fresh:
    """Token of a value that was certainly allocated by the expression itself (construction, string literal):
    never identical to the tracked value, whatever it equals."""


FRESH = _Fresh()


class _NoErr:
    def __repr__(self):
        return "NOERR"


NOERR = _NoErr()


def check_output(v):
    """Raises Unsupported if an output contains something the model cannot print (label objects)."""
    if isinstance(v, list):
        for x in v:
            check_output(x)
    elif isinstance(v, dict):
        for x in v.values():
            check_output(x)
    else:
        kind(v)


# ===================================================================================== natives ==

import base64 as _b64
import re as _re

_JSON_NUM = _re.compile(r"-?(0|[1-9][0-9]*)(\.[0-9]+)?([eE][+-]?[0-9]+)?\Z")
_B64_OK = _re.compile(r"[A-Za-z0-9+/]*={0,2}\Z")


def make_natives(I):
    N = {}

    # ---- jv_get ------------------------------------------------------------------------------
    def parse_slice(t, key):
        """-> (start, end) or None (jq: "Array/string slice indices must be integers")."""
        if "start" not in key or "end" not in key:
            if I.c16:
                # 1.6 uses jv_get: a missing key reads as null (= default)
                pass
            else:
                return None
        s, e = key.get("start"), key.get("end")
        n = len(t)
        if s is None:
            s = 0.0
        if e is None:
            e = float(n)
        if kind(s) != "number" or kind(e) != "number":
            return None
        if s != s or e != e:
            raise Unsupported("nan slice bound")
        if not (is_int_valued(s) and is_int_valued(e)):
            raise Unsupported("fractional slice bounds (1.6 and 1.7.1 round differently)")
        if s < 0:
            s += n
        if e < 0:
            e += n
        if s < 0:
            s = 0
        if s > n:
            s = n
        if e > n:
            e = n
        if e < s:
            e = s
        return int(s), int(e)

    SLICE_MSG = "Array/string slice indices must be integers"
    SLICE_MSG16 = "Start and end indices of an array slice must be numbers"

    def slice_msg():
        return SLICE_MSG16 if I.c16 else SLICE_MSG

    def index(t, k):
        tk, kk = kind(t), kind(k)
        if tk == "object" and kk == "string":
            return t.get(k)
        if tk == "array" and kk == "number":
            if k != k:
                return None
            if not is_int_valued(k):
                raise Unsupported("fractional array index (1.6: null, 1.7.1: truncates)")
            i = int(k)
            if i < 0:
                i += len(t)
            if 0 <= i < len(t):
                return t[i]
            return None
        if tk == "array" and kk == "object":
            se = parse_slice(t, k)
            if se is None:
                raise err(slice_msg())
            return t[se[0]:se[1]]
        if tk == "string" and kk == "object":
            se = parse_slice(t, k)
            if se is None:
                raise err(slice_msg())
            return t[se[0]:se[1]]
        if tk == "array" and kk == "array":
            return array_indexes(t, k)
        if tk == "null" and kk in ("string", "number", "object"):
            return None
        if kk == "string":
            raise err('Cannot index %s with string "%s"' % (tk, k))
        raise err("Cannot index %s with %s" % (tk, kk))

    def array_indexes(a, b):
        # jv_array_indexes (1.6 and 1.7.1 share its quirks; only the plain cases are modelled)
        if not b:
            return None if False else []
        res = []
        for ai in range(len(a)):
            ok = True
            for bi in range(len(b)):
                if ai + bi >= len(a) or not I.equal(a[ai + bi], b[bi]):
                    ok = False
                    break
            if ok:
                res.append(float(ai))
        # jq's loop has a known quirk (idx reset) for partial matches; restrict to single-element needles
        if len(b) > 1:
            raise Unsupported("array indexes of a multi-element needle")
        return res

    N["index"] = index

    # ---- jv_set / setpath / getpath / delpaths ---------------------------------------------------
    def jv_set(t, k, v):
        tk, kk = kind(t), kind(k)
        if kk == "string" and tk in ("object", "null"):
            o = dict(t) if tk == "object" else {}
            o[k] = v
            return o
        if kk == "number" and tk in ("array", "null"):
            a = list(t) if tk == "array" else []
            if k != k:
                if I.c16:
                    raise Unsupported("nan index write in 1.6")
                raise err("Cannot set array element at NaN index")
            if not is_int_valued(k):
                raise Unsupported("fractional array index write")
            i = int(k)
            if i < 0:
                i += len(a)
                if i < 0:
                    raise err("Out of bounds negative array index")
            if i > 100000:
                raise Unsupported("huge array index")
            while len(a) <= i:
                a.append(None)
            a[i] = v
            return a
        if kk == "object" and tk in ("array", "null"):
            if tk == "null" and I.flag_div:
                raise Unsupported("DIVERGENCE:slice-write-null")
            a = list(t) if tk == "array" else []
            if kind(v) != "array":
                raise err("A slice of an array can only be assigned another array")
            se = parse_slice(a, k)
            if se is None:
                raise err(slice_msg())
            return a[:se[0]] + list(v) + a[se[1]:]
        if kk == "object" and tk == "string":
            if I.c16:
                raise Unsupported("string slice update message in 1.6")
            raise err("Cannot update string slices")
        raise err("Cannot update field at object index of %s" % tk) if kk == "object" or tk in ("array", "object", "null") and False \
            else err(_set_err(tk, kk, k))

    def _set_err(tk, kk, k):
        # jv_set's final else: "Cannot index %s with ..." does not exist there; jq says:
        if kk == "string":
            return 'Cannot index %s with string "%s"' % (tk, k)
        return "Cannot update field at object index of %s" % tk if kk == "object" else "Cannot index %s with %s" % (tk, kk)

    def getpath(t, p):
        if p is None:
            return t
        if kind(p) != "array":
            raise err("Path must be specified as an array")
        cur = t
        for key in p:
            cur = index(cur, key)
        return cur

    N["getpath"] = getpath

    def setpath(root, p, v):
        if kind(p) != "array":
            raise err("Path must be specified as an array")
        if not p:
            return v
        sub = index(root, p[0])
        return jv_set(root, p[0], setpath(sub, p[1:], v))

    N[("setpath", 2)] = lambda inp, p, v: setpath(inp, p, v)

    def dels(t, keys):
        tk = kind(t)
        if tk == "null" or not keys:
            return t
        if tk == "array":
            n = len(t)
            dele = set()
            for key in keys:
                kk = kind(key)
                if kk == "number":
                    if not is_int_valued(key):
                        raise Unsupported("fractional index deletion")
                    i = int(key)
                    if i < 0:
                        i += n
                    if 0 <= i < n:
                        dele.add(i)
                elif kk == "object":
                    se = parse_slice(t, key)
                    if se is None:
                        raise err(slice_msg())
                    dele.update(range(se[0], se[1]))
                else:
                    if I.c16:
                        raise Unsupported("array deletion key message in 1.6")
                    raise err("Cannot delete %s element of array" % kk)
            return [x for i, x in enumerate(t) if i not in dele]
        if tk == "object":
            o = dict(t)
            for key in keys:
                if kind(key) != "string":
                    if I.c16:
                        raise Unsupported("object deletion key message in 1.6")
                    raise err("Cannot delete %s field of object" % kind(key))
                o.pop(key, None)
            return o
        raise err("Cannot delete fields from %s" % tk)

    def delpaths_sorted(obj, paths, start):
        delkeys = []
        i = 0
        while i < len(paths):
            j = i
            delkey = len(paths[i]) == start + 1
            key = paths[i][start]
            while j < len(paths) and len(paths[j]) > start and I.equal(key, paths[j][start]):
                j += 1
            if delkey:
                delkeys.append(key)
            else:
                sub = index(obj, key)
                if sub is None:
                    pass
                else:
                    newsub = delpaths_sorted(sub, paths[i:j], start + 1)
                    obj = jv_set(obj, key, newsub)
            i = j
        return dels(obj, delkeys)

    def delpaths(obj, paths):
        if kind(paths) != "array":
            raise err("Paths must be specified as an array")
        paths = I.sort(paths)
        for p in paths:
            if kind(p) != "array":
                raise err("Path must be specified as an array")
        if not paths:
            return obj
        if not paths[0]:
            return None
        return delpaths_sorted(obj, paths, 0)

    N[("delpaths", 1)] = lambda inp, ps: delpaths(inp, ps)

    # ---- arithmetic / comparison -------------------------------------------------------------------
    def deep_merge(a, b):
        o = dict(a)
        for k2, v2 in b.items():
            if k2 in o and kind(o[k2]) == "object" and kind(v2) == "object":
                o[k2] = deep_merge(o[k2], v2)
            else:
                o[k2] = v2
        return o

    def binop(op, a, b):
        ak, bk = kind(a), kind(b)
        if op == "+":
            if ak == "null":
                return b
            if bk == "null":
                return a
            if ak == bk == "number":
                return a + b
            if ak == bk == "string":
                return a + b
            if ak == bk == "array":
                return a + b
            if ak == bk == "object":
                o = dict(a)
                o.update(b)
                return o
            raise type_error2(a, b, "cannot be added")
        if op == "-":
            if ak == bk == "number":
                return a - b
            if ak == bk == "array":
                return [x for x in a if not any(I.equal(x, y) for y in b)]
            raise type_error2(a, b, "cannot be subtracted")
        if op == "*":
            if ak == bk == "number":
                return a * b
            if (ak == "string" and bk == "number") or (ak == "number" and bk == "string"):
                s, n = (a, b) if ak == "string" else (b, a)
                if n != n:
                    raise Unsupported("string * nan")
                if n < 0:
                    return None
                if n == 0:
                    # 1.6 answers null; the repository notes jq >= 1.7 answers "" (jqlang/jq#1593, 'confirmed live'): no recorded
                    # trace, and the two sources disagree -> outside the fragment
                    raise Unsupported("string repeated zero times (null in 1.6, reportedly \"\" in 1.7.x)")
                if not is_int_valued(n):
                    raise Unsupported("string repeated a fractional number of times")
                if n * len(s) > 100000:
                    raise Unsupported("huge string repetition")
                return s * int(n)
            if ak == bk == "object":
                return deep_merge(a, b)
            raise type_error2(a, b, "cannot be multiplied")
        if op == "/":
            if ak == bk == "number":
                if b == 0:
                    raise type_error2(a, b, "cannot be divided because the divisor is zero")
                return a / b
            if ak == bk == "string":
                return split_string(a, b)
            raise type_error2(a, b, "cannot be divided")
        if op == "%":
            if ak == bk == "number":
                if a != a or b != b:
                    raise Unsupported("nan remainder")
                if abs(a) >= 2 ** 63 or abs(b) >= 2 ** 63:
                    raise Unsupported("remainder of huge numbers (1.6/1.7.1 cast differently)")
                ia, ib = int(a), int(b)     # C cast: truncation toward zero
                if ib == 0:
                    raise type_error2(a, b, "cannot be divided (remainder) because the divisor is zero")
                r = abs(ia) % abs(ib)
                # 1.7.1: ((intmax_t)a % abs(b)) with the sign of a
                return float(-r if ia < 0 else r)
            raise type_error2(a, b, "cannot be divided (remainder)")
        c = I.cmp(a, b)
        if op == "==":
            return c == 0
        if op == "!=":
            return c != 0
        if op == "<":
            return c < 0
        if op == "<=":
            return c <= 0
        if op == ">":
            return c > 0
        if op == ">=":
            return c >= 0
        raise AssertionError(op)

    N["binop"] = binop

    def split_string(s, sep):
        if s == "":
            return []
        if sep == "":
            return list(s)
        return s.split(sep)

    # ---- simple C functions -----------------------------------------------------------------------------
    def f_length(v):
        k = kind(v)
        if k in ("array", "object", "string"):
            return float(len(v))
        if k == "number":
            return abs(v)
        if k == "null":
            return 0.0
        raise type_error(v, "has no length")

    def f_utf8bytelength(v):
        if kind(v) != "string":
            raise type_error(v, "only strings have UTF-8 byte length")
        return float(len(utf8(v)))

    def f_keys(v, sort=True):
        k = kind(v)
        if k == "object":
            ks = list(v.keys())
            if sort:
                ks.sort(key=utf8)
            return ks
        if k == "array":
            return [float(i) for i in range(len(v))]
        raise type_error(v, "has no keys")

    def f_has(v, key):
        vk, kk = kind(v), kind(key)
        if vk == "object" and kk == "string":
            return key in v
        if vk == "array" and kk == "number":
            if key != key:
                raise Unsupported("has(nan)")
            if not is_int_valued(key):
                raise Unsupported("has(fractional)")
            return 0 <= key < len(v)
        if vk == "null":
            return False     # f_has answers false for null whatever the key is (witnessed by jq 1.6)
        raise err("Cannot check whether %s has a %s key" % (vk, kk))

    def contains(a, b):
        ak, bk = kind(a), kind(b)
        if ak != bk:
            raise type_error2(a, b, "cannot have their containment checked")
        if ak == "object":
            for key, bv in b.items():
                if key not in a:
                    return False
                if not contains_inner(a[key], bv):
                    return False
            return True
        if ak == "array":
            return all(any(contains_inner(x, y) for x in a) for y in b)
        if ak == "string":
            if "\x00" in a or "\x00" in b:
                raise Unsupported("NUL in contains")
            return b in a
        return I.equal(a, b)

    def contains_inner(a, b):
        # jv_contains: kinds differ -> equality test (false), no error
        if kind(a) != kind(b):
            return I.equal(a, b)
        return contains(a, b)

    def f_tojson(v):
        check_output(v)
        return dump(v)

    def f_tostring(v):
        if kind(v) == "string":
            return v
        return dump(v)

    def literal_error(s):
        """jv_parse diagnostics for the single-token shapes recorded in jq-error-messages.tsv."""
        if s == "":
            return "Expected JSON value (while parsing '')"
        if any(ord(c) > 126 or ord(c) < 33 for c in s) or any(c in '[]{}:,"' for c in s):
            raise Unsupported("parser diagnostic beyond a single bare token")
        if s in ("nan", "NaN", "Infinity", "-Infinity", "infinity", "-infinity") or s.lower().startswith(("nan", "inf", "-inf", "+inf")):
            raise Unsupported("nan/infinity literal text")
        return "Invalid numeric literal at EOF at line 1, column %d (while parsing '%s')" % (len(s), s)

    def f_tonumber(v):
        k = kind(v)
        if k == "number":
            return v
        if k != "string":
            raise type_error(v, "cannot be parsed as a number")
        s = v
        core = s.strip(" \t\r\n")
        if _JSON_NUM.match(core) and core != "":
            if core != s:
                raise Unsupported("tonumber with surrounding whitespace")
            if not canonical_literal(core):
                raise Unsupported("tonumber result keeps a non-canonical literal in 1.7.1")
            return float(core)
        if s in ("null", "true", "false"):
            raise type_error(v, "cannot be parsed as a number")
        if core != s:
            raise Unsupported("tonumber diagnostic with whitespace")
        # things like "01", "1.", ".5", "+1", "1e5x": jq's own strtod accepts some of them
        if _re.match(r"[+\-.0-9]", s) and _re.match(r"[+\-.0-9eE]*\Z", s):
            raise Unsupported("non-JSON numeric spelling")
        raise err(literal_error(s))

    def f_fromjson(v):
        if kind(v) != "string":
            raise type_error(v, "only strings can be parsed")
        s = v
        try:
            return parse_json(s) if s.strip(" \t\r\n") == s and s != "" else _raise(Unsupported("fromjson with whitespace / empty"))
        except Unsupported:
            if s == "":
                raise err(literal_error(s))
            try:
                json.loads(s)
            except ValueError:
                raise err(literal_error(s))
            raise

    def _raise(e):
        raise e

    def f_type(v):
        return kind(v)

    def f_sort(v):
        if kind(v) != "array":
            raise type_error(v, "cannot be sorted, as it is not an array")
        return I.sort(v)

    def keyed(v, keys, what):
        if kind(v) == "array" and kind(keys) == "array" and len(v) == len(keys):
            return list(zip(keys, v))
        raise type_error2(v, keys, what)

    def f_sort_by(v, keys):
        pairs = keyed(v, keys, "cannot be sorted, as they are not both arrays")
        return [x for _, x in I.sort(pairs, keyf=lambda p: p[0])]

    def f_group_by(v, keys):
        pairs = I.sort(keyed(v, keys, "cannot be sorted, as they are not both arrays"), keyf=lambda p: p[0])
        groups = []
        last = None
        for kx, x in pairs:
            if groups and I.equal(last, kx):
                groups[-1].append(x)
            else:
                groups.append([x])
                last = kx
        return groups

    def minmax_by(v, keys, is_min):
        if kind(v) != "array" or kind(keys) != "array" or len(v) != len(keys):
            raise type_error2(v, keys, "cannot be iterated over")
        if not v:
            return None
        best, bestk = v[0], keys[0]
        for x, kx in zip(v[1:], keys[1:]):
            c = I.cmp(kx, bestk)
            if (c < 0) == (is_min == 1) and c != 0 if is_min else c >= 0:
                best, bestk = x, kx
        return best

    def f_min_by(v, keys):
        # jq: include = (cmp < 0) == (is_min == 1); equal keys: for min keep first, for max take the later one
        if kind(v) != "array" or kind(keys) != "array" or len(v) != len(keys):
            raise type_error2(v, keys, "cannot be iterated over")
        if not v:
            return None
        best, bestk = v[0], keys[0]
        for x, kx in zip(v[1:], keys[1:]):
            if I.cmp(kx, bestk) < 0:
                best, bestk = x, kx
        return best

    def f_max_by(v, keys):
        if kind(v) != "array" or kind(keys) != "array" or len(v) != len(keys):
            raise type_error2(v, keys, "cannot be iterated over")
        if not v:
            return None
        best, bestk = v[0], keys[0]
        for x, kx in zip(v[1:], keys[1:]):
            if not (I.cmp(kx, bestk) < 0):
                best, bestk = x, kx
        return best

    def f_explode(v):
        if kind(v) != "string":
            raise err("explode input must be a string")
        return [float(ord(c)) for c in v]

    def f_implode(v):
        if kind(v) != "array":
            if I.c16:
                raise Unsupported("implode of a non-array asserts in 1.6")
            raise err("implode input must be an array")
        out = []
        for x in v:
            if kind(x) != "number" or x != x:
                if I.c16:
                    raise Unsupported("implode of a non-number asserts in 1.6")
                raise type_error(x, "can't be imploded, unicode codepoint needs to be numeric")
            if not is_int_valued(x) or x < 0 or x > 0x10FFFF or 0xD800 <= x <= 0xDFFF:
                raise Unsupported("implode of an invalid code point")
            out.append(chr(int(x)))
        return "".join(out)

    def f_split1(v, sep):
        if kind(v) != "string" or kind(sep) != "string":
            raise err("split input and separator must be strings")
        return split_string(v, sep)

    def f_startswith(v, s):
        if kind(v) != "string" or kind(s) != "string":
            raise err("startswith() requires string inputs")
        return v.startswith(s)

    def f_endswith(v, s):
        if kind(v) != "string" or kind(s) != "string":
            raise err("endswith() requires string inputs")
        return v.endswith(s)

    def f_ltrimstr(v, s):
        if kind(v) == "string" and kind(s) == "string" and v.startswith(s):
            return v[len(s):]
        return v

    def f_rtrimstr(v, s):
        if kind(v) == "string" and kind(s) == "string" and v.endswith(s):
            return v[:len(v) - len(s)] if len(s) else v
        return v

    def f_strindices(v, s):
        if kind(v) != "string" or kind(s) != "string":
            raise Unsupported("_strindices on non-strings")
        if s == "":
            raise Unsupported("_strindices of the empty string")
        if any(ord(c) > 127 for c in v):
            raise Unsupported("_strindices byte offsets on non-ASCII text")
        res = []
        i = v.find(s)
        while i >= 0:
            res.append(float(i))
            if I.c16:
                i = v.find(s, i + len(s))     # 1.6 skips overlapping matches
            else:
                i = v.find(s, i + 1)
        return res

    N.update({
        ("length", 0): f_length, ("utf8bytelength", 0): f_utf8bytelength,
        ("keys", 0): lambda v: f_keys(v, True), ("keys_unsorted", 0): lambda v: f_keys(v, False),
        ("has", 1): f_has, ("contains", 1): contains, ("tojson", 0): f_tojson, ("tostring", 0): f_tostring,
        ("tonumber", 0): f_tonumber, ("fromjson", 0): f_fromjson, ("type", 0): f_type, ("sort", 0): f_sort,
        ("_sort_by_impl", 1): f_sort_by, ("_group_by_impl", 1): f_group_by,
        ("_min_by_impl", 1): f_min_by, ("_max_by_impl", 1): f_max_by,
        ("min", 0): lambda v: f_min_by(v, v), ("max", 0): lambda v: f_max_by(v, v),
        ("explode", 0): f_explode, ("implode", 0): f_implode, ("split", 1): f_split1,
        ("startswith", 1): f_startswith, ("endswith", 1): f_endswith, ("ltrimstr", 1): f_ltrimstr,
        ("rtrimstr", 1): f_rtrimstr, ("_strindices", 1): f_strindices,
        ("infinite", 0): lambda v: math.inf, ("nan", 0): lambda v: math.nan,
        ("null", 0): lambda v: None, ("true", 0): lambda v: True, ("false", 0): lambda v: False,
        ("_unsupported", 1): lambda v, why: _raise(Unsupported(str(why))),
        ("_divergence", 1): lambda v, why: _raise(Unsupported("DIVERGENCE:" + str(why))) if I.flag_div else v,
    })

    # ---- math ---------------------------------------------------------------------------------------------
    def num(v):
        if kind(v) != "number":
            raise type_error(v, "number required")
        return v

    def safe(f):
        def g(x):
            try:
                return float(f(x))
            except ValueError:
                return math.nan
            except OverflowError:
                return math.inf
        return g

    def c_round(x):
        if x != x or x in (math.inf, -math.inf):
            return x
        return math.copysign(math.floor(abs(x) + 0.5), x)

    def c_log(x):
        if x == 0:
            return -math.inf
        if x < 0:
            return math.nan
        return math.log(x)

    def c_log2(x):
        if x == 0:
            return -math.inf
        if x < 0:
            return math.nan
        return math.log2(x)

    def c_log10(x):
        if x == 0:
            return -math.inf
        if x < 0:
            return math.nan
        return math.log10(x)

    def c_exp2(x):
        try:
            return 2.0 ** x
        except OverflowError:
            return math.inf

    def c_floorlike(f):
        def g(x):
            if x != x or x in (math.inf, -math.inf):
                return x
            return float(f(x))
        return g

    MATH1 = {
        "floor": c_floorlike(math.floor), "ceil": c_floorlike(math.ceil), "round": c_round, "trunc": c_floorlike(math.trunc),
        "sqrt": safe(math.sqrt), "fabs": lambda x: abs(x), "log": c_log, "log2": c_log2, "log10": c_log10,
        "exp": safe(math.exp), "exp2": c_exp2,
        "sin": safe(math.sin), "cos": safe(math.cos), "tan": safe(math.tan), "asin": safe(math.asin), "acos": safe(math.acos),
        "atan": safe(math.atan), "sinh": safe(math.sinh), "cosh": safe(math.cosh), "tanh": safe(math.tanh),
    }
    for nm, fn in MATH1.items():
        N[(nm, 0)] = (lambda fn: lambda v: fn(num(v)))(fn)

    def f_pow(v, a, b):
        a, b = num(a), num(b)
        try:
            return math.pow(a, b)
        except ValueError:
            return math.nan
        except OverflowError:
            return math.inf
        except ZeroDivisionError:
            return math.inf

    N[("pow", 2)] = f_pow
    N[("atan2", 2)] = lambda v, a, b: math.atan2(num(a), num(b))
    def num_only(v):
        # 1.6 answers false for non-numbers; whether 1.7.1 does is neither recorded nor documented
        if kind(v) != "number":
            raise Unsupported("isnan/isinfinite/isnormal of a non-number")
        return v

    N[("isinfinite", 0)] = lambda v: num_only(v) in (math.inf, -math.inf)
    N[("isnan", 0)] = lambda v: num_only(v) != num_only(v)

    def f_isnormal(v):
        x = num_only(v)
        return x == x and x not in (math.inf, -math.inf) and abs(x) >= 2.2250738585072014e-308

    N[("isnormal", 0)] = f_isnormal

    # ---- formats --------------------------------------------------------------------------------------------
    def fmt(name, v):
        if name == "@text":
            return f_tostring(v)
        if name == "@json":
            return f_tojson(v)
        if name in ("@csv", "@tsv"):
            if kind(v) != "array":
                # jq 1.6 says "... cannot be csv-formatted, only array"; src/jq/eval.rs (format_csv) records the same sentence
                # as 'confirmed live' against jq 1.7.1
                raise type_error(v, "cannot be %s-formatted, only array" % name[1:])
            cells = []
            for x in v:
                xk = kind(x)
                if xk == "number":
                    cells.append("" if x != x else fmt_number(x))
                elif xk == "boolean":
                    cells.append("true" if x else "false")
                elif xk == "null":
                    cells.append("")
                elif xk == "string":
                    if name == "@csv":
                        cells.append('"' + x.replace('"', '""') + '"')
                    else:
                        cells.append(x.replace("\\", "\\\\").replace("\t", "\\t").replace("\r", "\\r").replace("\n", "\\n"))
                else:
                    raise type_error(x, "is not valid in a csv row")
            return ("," if name == "@csv" else "\t").join(cells)
        if name in ("@html", "@uri", "@base64", "@base64d") and kind(v) != "string" and I.flag_div:
            raise Unsupported("DIVERGENCE:format-nonstring")
        if name == "@html":
            s = f_tostring(v)
            return (s.replace("&", "&amp;").replace("<", "&lt;").replace(">", "&gt;").replace("'", "&#39;").replace('"', "&quot;"))
        if name == "@uri":
            s = f_tostring(v)
            keep = "ABCDEFGHIJKLMNOPQRSTUVWXYZabcdefghijklmnopqrstuvwxyz0123456789-_.~"
            if I.c16:
                keep += "!*'()"
            return "".join(c if c in keep else "".join("%%%02X" % b for b in utf8(c)) for c in s)
        if name == "@sh":
            items = v if kind(v) == "array" else [v]
            out = []
            for x in items:
                xk = kind(x)
                if xk in ("array", "object"):
                    raise type_error(x, "can not be escaped for shell")
                if xk == "string":
                    out.append("'" + x.replace("'", "'\\''") + "'")
                else:
                    out.append(dump(x))
            return " ".join(out)
        if name == "@base64":
            s = f_tostring(v)
            return _b64.b64encode(utf8(s)).decode("ascii")
        if name == "@base64d":
            s = f_tostring(v)
            if not _B64_OK.match(s):
                raise Unsupported("@base64d of text outside the base64 alphabet")
            core = s.rstrip("=")
            if len(core) % 4 == 1:
                raise Unsupported("@base64d with a trailing sextet (message differs 1.6/1.7.1)")
            try:
                raw = _b64.b64decode(core + "=" * (-len(core) % 4), validate=True)
                return raw.decode("utf-8")
            except Exception:
                raise Unsupported("@base64d result is not valid UTF-8 / canonical base64")
        raise Unsupported("format %s is outside the fragment" % name)

    N["format"] = fmt
    N[("format", 1)] = lambda v, name: fmt("@" + name, v) if kind(name) == "string" else _raise(Unsupported("format arg"))
    return N


# ============================================================================ builtins written in jq ==
# Definitions of jq 1.7.1's src/builtin.jq for the builtins inside the fragment.  Those whose 1.6 definition
# differs in an observable, documented way are in BUILTINS_JQ_171 / BUILTINS_JQ_16.

BUILTINS_JQ = r'''
def error(msg): msg|error;
def map(f): [.[] | f];
def select(f): if f then . else empty end;
def sort_by(f): _sort_by_impl(map([f]));
def group_by(f): _group_by_impl(map([f]));
def unique: group_by(.) | map(.[0]);
def unique_by(f): [group_by(f)[] | .[0]];
def max_by(f): _max_by_impl(map([f]));
def min_by(f): _min_by_impl(map([f]));
def add: reduce .[] as $x (null; . + $x);
def reverse: if type == "string" then _unsupported("reverse of a string (definition changed around 1.7, not recorded)") else [.[length - 1 - range(0;length)]] end;
def del(f): delpaths([path(f)]);
def _assign(paths; $value): reduce path(paths) as $p (.; setpath($p; $value));
def map_values(f): .[] |= f;
def recurse(f): def r: ., (f | r); r;
def recurse(f; cond): def r: ., (f | select(cond) | r); r;
def recurse: recurse(.[]?);
def to_entries: [keys_unsorted[] as $k | {key: $k, value: .[$k]}];
def with_entries(f): to_entries | map(f) | from_entries;
def values: select(. != null);
def nulls: select(. == null);
def booleans: select(type == "boolean");
def numbers: select(type == "number");
def strings: select(type == "string");
def arrays: select(type == "array");
def objects: select(type == "object");
def iterables: select(type|. == "array" or . == "object");
def scalars: select(type|. != "array" and . != "object");
def join($x): reduce .[] as $i (null;
            (if .==null then "" else .+$x end) +
            ($i | if .==null then "" elif (type=="boolean" or type=="number") then tojson else . end)
        ) // "";
def _flatten($x): reduce .[] as $i ([]; if $i | type == "array" and $x != 0 then . + ($i | _flatten($x - 1)) else . + [$i] end);
def flatten($x): if ($x|type) != "number" then (_divergence("flatten-nonnumeric-depth") | _flatten($x)) elif $x < 0 then error("flatten depth must not be negative") else _flatten($x) end;
def flatten: _flatten(1000000000);
def range($x): range(0;$x);
def range($from;$upto;$by):
  if ($by|type) != "number" or ($from|type) != "number" or ($upto|type) != "number" then _unsupported("range/3 with non-numeric bounds")
  elif $by > 0 then $from|while(. < $upto; . + $by)
  elif $by < 0 then $from|while(. > $upto; . + $by)
  else empty end;
def first(f): label $__first | (f | ., break $__first);
def first: .[0];
def last(f): reduce f as $x (null; $x);
def last: .[-1];
def nth($n): .[$n];
def nth($n; f): if $n < 0 then error("nth doesn't support negative indices") else last(limit($n + 1; f)) end;
def until(cond; update): def _until: if cond then . else (update | _until) end; _until;
def while(cond; update): def _while: if cond then ., (update | _while) else empty end; _while;
def repeat(f): def _repeat: ., (f | _repeat); _repeat;
def in(xs): . as $x | xs | has($x);
def inside(xs): . as $x | xs | contains($x);
def combinations: if length == 0 then [] else .[0][] as $x | (.[1:] | combinations) as $w | [$x] + $w end;
def combinations(n): . as $dot | [range(n)] | map($dot) | combinations;
def transpose: if . == [] then [] else . as $in | (map(length) | max) as $max | [range(0; $max) as $j | [range(0; $in|length) as $i | $in[$i][$j] ] ] end;
def paths: path(..)|select(length > 0);
def paths(node_filter): . as $dollar_dot|paths|select(. as $p|$dollar_dot|getpath($p) | node_filter);
def finites: select(isinfinite or isnan | not);
def normals: select(isnormal);
def tostream: path(def r: (.[]?|r), .; r) as $p | getpath($p) | reduce path(.[]?) as $q ([$p, .]; [$p+$q]);
def fromstream(f): { x: null, e: false } as $init
 | foreach f as $i
     ( $init;
       if .e then $init else . end
       | if $i | length == 2
         then setpath(["e"]; $i[0] | length == 0) | setpath(["x"] + $i[0]; $i[1])
         else setpath(["e"]; $i[0] | length == 1) end;
       if .e then .x else empty end
     );
def truncate_stream(stream): . as $n | null | stream | . as $input | if (.[0]|length) > $n then setpath([0];.[0][$n:]) else empty end;
def indices($i): if type == "array" and ($i|type) == "array" then .[$i]
  elif type == "array" then .[[$i]]
  elif type == "string" and ($i|type) == "string" then _strindices($i)
  else .[$i] end;
def index($i):   indices($i) | .[0];
def rindex($i):  indices($i) | .[-1:][0];
def ascii_downcase: explode | map( if 65 <= . and . <= 90 then . + 32  else . end) | implode;
def ascii_upcase: explode | map( if 97 <= . and . <= 122 then . - 32  else . end) | implode;
def INDEX(stream; idx_expr): reduce stream as $row ({}; .[$row|idx_expr|tostring] |= $row);
def INDEX(idx_expr): INDEX(.[]; idx_expr);
def isempty(g): label $go | (g|false, break $go), true;
def IN(s): any(s == .; .);
def IN(src; s): any(src == s; .);
def any(f): any(.[]; f);
def any: any(.);
def all(f): all(.[]; f);
def all: all(.);
def bsearch($target):
  if length == 0 then -1
  elif length == 1 then
     (if $target == .[0] then 0 elif $target < .[0] then -1 else -2 end)
  else . as $in
    | [0, length-1, null]
    | until( .[0] > .[1] ;
             if .[2] != null then (.[1] = -1)
             else
               ( ( (.[1] + .[0]) / 2 ) | floor ) as $mid
               | $in[$mid] as $monkey
               | if $monkey == $target  then (.[2] = $mid)
                 elif (.[0] == .[1])     then (.[1] = -1)
                 elif $monkey < $target then (.[0] = ($mid + 1))
                 else (.[1] = ($mid - 1))
                 end
             end )
    | if .[2] == null then
         if $in[ .[0] ] < $target then (-2 -.[0])
         else (-1 -.[0])
         end
      else .[2]
      end
  end;
'''

BUILTINS_JQ_171 = r'''
def _modify(paths; update):
    reduce path(paths) as $p ([., []];
        . as $x
        | label $out
        | (setpath([0] + $p; $x[0] | getpath($p) | update) | ., break $out),
          setpath([1, ($x[1] | length)]; $p))
    | . as $x | $x[0] | delpaths($x[1]);
def limit($n; f): if $n > 0 then label $out | foreach f as $item (0; .+1; $item, if . >= $n then break $out else empty end)
                  elif $n == 0 then empty else f end;
def any(generator; condition): isempty(first(generator|condition or empty)) | not;
def all(generator; condition): isempty(first(generator|condition and empty));
def from_entries: map({(.key // .Key // .name // .Name): (if has("value") then .value else .Value end)}) | add | . //= {};
def walk(f): def w: if type == "object" then map_values(w) elif type == "array" then map(w) else . end | f; w;
'''

BUILTINS_JQ_16 = r'''
def _modify(paths; update): reduce path(paths) as $p (.; label $out | (setpath($p; getpath($p) | update) | ., break $out), delpaths([$p]));
def limit($n; f): if $n < 0 then f else label $out | foreach f as $item (0; .+1; $item, if . >= $n then break $out else empty end) end;
def any(generator; condition): [label $out | foreach (generator|condition) as $cond (false; if . then break $out elif $cond then true else . end; if . then . else empty end)] | length == 1;
def all(generator; condition): [label $out | foreach (generator|condition) as $cond (true; if .|not then break $out elif $cond then . else false end; if .|not then . else empty end)] | length == 0;
def from_entries: map({(.key // .k // .name // .Name // .K // .Key): (if has("value") then .value else .Value end)}) | add + {} // {};
def walk(f): . as $in | if type == "object" then reduce keys_unsorted[] as $key ( {}; . + { ($key):  ($in[$key] | walk(f)) } ) | f elif type == "array" then map( walk(f) ) | f else f end;
'''


# ===================================================================================== CLI model ==

_INTERPS = {}


def interp(compat16=False):
    if compat16 not in _INTERPS:
        _INTERPS[compat16] = Interp(compat16)
    return _INTERPS[compat16]


_AST_CACHE = {}


def parse_cached(prog):
    r = _AST_CACHE.get(prog)
    if r is None:
        try:
            r = ("ok", parse(prog))
        except Unsupported as e:
            r = ("unsupported", str(e))
        except ParseError as e:
            r = ("parse-error", str(e))
        except RecursionError:
            r = ("unsupported", "program too deep")
        _AST_CACHE[prog] = r
    return r


def evaluate(prog, inp_value, compat16=False, named=None, flag_div=True):
    """-> (outputs, error value | NOERR).  Raises Unsupported when outside the fragment."""
    st, ast = parse_cached(prog)
    if st == "unsupported":
        raise Unsupported(ast)
    if st == "parse-error":
        raise Unsupported("model parser: " + ast)
    it = interp(compat16)
    it.flag_div = flag_div
    try:
        return it.run(ast, inp_value, named)
    except ParseError as e:
        raise Unsupported("model: " + str(e))


def run_cli(prog, args, stdin_text, compat16=False, flag_div=True):
    """Model of `jq ARGS PROG` reading ONE JSON document from stdin.
    -> (stdout str, exit status int, stderr str).  Raises Unsupported outside the fragment."""
    compact = raw = null_input = sort_keys = ascii_out = exit_status = False
    named = {}
    i = 0
    args = list(args)
    while i < len(args):
        a = args[i]
        if a == "-c":
            compact = True
        elif a == "-r":
            raw = True
        elif a == "-n":
            null_input = True
        elif a == "-S":
            sort_keys = True
        elif a == "-a":
            ascii_out = True
        elif a == "-e":
            exit_status = True
        elif a == "--arg":
            named[args[i + 1]] = args[i + 2]
            i += 2
        elif a == "--argjson":
            named[args[i + 1]] = parse_json(args[i + 2])
            i += 2
        else:
            raise Unsupported("CLI option %s" % a)
        i += 1
    if null_input:
        inp = None
        where = "<unknown>"
    else:
        text = stdin_text
        body = text.rstrip("\n")
        if "\n" in body or len(text) - len(body) > 1:
            raise Unsupported("multi-line input (error location not modelled)")
        inp = parse_json(body)
        where = "<stdin>:%d" % (len(text) - len(body))
    outs, e = evaluate(prog, inp, compat16, named, flag_div)
    lines = []
    for o in outs:
        if raw and kind(o) == "string":
            lines.append(o)
        else:
            lines.append(dump(o, sort_keys, ascii_out, None if compact else 2))
    stdout = "".join(l + "\n" for l in lines)
    if e is NOERR:
        status = 0
        if exit_status:
            status = 0 if (outs and truthy(outs[-1])) else (1 if outs else 4)
        return stdout, status, ""
    if isinstance(e, LabelObj):
        raise Unsupported("uncaught break")
    if kind(e) == "string":
        if "\x00" in e:
            raise Unsupported("NUL in error message")
        stderr = "jq: error (at %s): %s\n" % (where, e)
    else:
        check_output(e)
        stderr = "jq: error (at %s) (not a string): %s\n" % (where, dump(e))
    return stdout, 5, stderr
