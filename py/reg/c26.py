SPEC = dict(
    kind="py", module="c26", design_ref="§3-C26",
    technique="differential exploration between input syntaxes (S5): bounded-exhaustive enumeration of (tree, program) pairs through the real "
              "CLI code path, the same tree supplied in 9 renderings (JSON / block YAML / flow YAML, explicit -p and auto-detection)",
    rule="trees: every leaf of the alphabet (20 strings incl. ambiguous-looking ones, 4 ints, 2 bools, null) alone / in a one-element sequence / "
         "under key a; all five two-leaf shapes over a 10-leaf (quick 4) sub-alphabet; 15 special-key mappings; empty containers. Programs: the "
         "presentation-agnostic list (~290, quick ~125). A case is (tree, program); distinct+non-trivial = distinct case with its verdict",
    level_text="For every enumerated (tree, program) the `-o json -I0` answers for all nine renderings of the tree must be equal as JSON values "
               "(numbers numerically) with equal exit status and error text. Exhaustive over the stated alphabets.",
    level_note="Programs inspecting presentation (style, tag, anchor, line, column, kind, comments) are excluded as the statement says; "
               "non-string leaves are always written in their canonical spelling (radix / case variants are YAML-only presentation). Text-level "
               "differences between equal values (e.g. 0 vs 0.0) are not failures. Batch results are tied to the executable by a spawn self-test "
               "and by re-judging every reported signature's example with real processes.",
    assumptions=["the YAML renderings are produced by a deliberately simple emitter (double-quoted, or plain only under a conservative predicate)",
                 "trees with more than two leaves and float leaves are out of scope"],
)
