//! C09 — JSON string escaping round-trips and escapes exactly the required set;
//! the vectorised escape scanner finds exactly the first `"`, `\` or C0 byte.
//!
//! S2 + alignment sweep. (i) every Unicode scalar value, alone and as `a<c>a`,
//! through the four body writers. (ii) strings of chunk-boundary lengths over
//! four fillers (1/2/3/4-byte characters) with two "interesting" characters at
//! every first position and at second positions p+{1,2,15,16,17,31,32,33}.
//! (iii) scanner: every buffer length 0..=N, every start 0..=len+1, every byte
//! value at every position (over ASCII and high-byte fillers), two specials at
//! all position pairs; dispatching entry, both forced x86 tiers and the scalar
//! fallback.
//!
//! Oracles (own code): a strict RFC 8259 string-body decoder that also reports
//! per character whether it was written as an escape; the per-convention
//! "must escape" predicate from the property statement; a byte-at-a-time scan.
use engine::*;
use serde_json::{json, Value};
use succinctly::jq::escape::{write_json_body_jq, write_json_body_jq_ascii, write_json_body_yq, write_json_body_yq_ascii};
use succinctly::verif_hooks::{find_json_escape_scalar, find_json_escape_tier};
use succinctly::yaml::simd::find_json_escape;

type Writer = fn(&mut String, &str) -> core::fmt::Result;
const WRITERS: [(&str, Writer); 4] = [
    ("jq", write_json_body_jq::<String>),
    ("jq_ascii", write_json_body_jq_ascii::<String>),
    ("yq", write_json_body_yq::<String>),
    ("yq_ascii", write_json_body_yq_ascii::<String>),
];

fn must_escape(writer: usize, c: char) -> bool {
    let cp = c as u32;
    let base = cp < 0x20 || c == '"' || c == '\\';
    match writer {
        0 => base || cp == 0x7f,
        1 => base || cp == 0x7f || cp > 0x7f,
        2 => base,
        3 => base || cp > 0x7f,
        _ => unreachable!(),
    }
}

fn hexval(c: char) -> Option<u32> {
    c.to_digit(16)
}

/// Strict RFC 8259 string-body decoder: (character, was it written as an escape).
fn decode_body(s: &str) -> Result<Vec<(char, bool)>, &'static str> {
    let cs: Vec<char> = s.chars().collect();
    let mut out = Vec::with_capacity(cs.len());
    let mut i = 0;
    let read4 = |cs: &[char], i: usize| -> Result<u32, &'static str> {
        if i + 4 > cs.len() {
            return Err("truncated-u-escape");
        }
        let mut v = 0u32;
        for k in 0..4 {
            v = v * 16 + hexval(cs[i + k]).ok_or("bad-hex-digit")?;
        }
        Ok(v)
    };
    while i < cs.len() {
        let c = cs[i];
        if c == '"' {
            return Err("raw-quote");
        }
        if (c as u32) < 0x20 {
            return Err("raw-control");
        }
        if c != '\\' {
            out.push((c, false));
            i += 1;
            continue;
        }
        i += 1;
        let e = *cs.get(i).ok_or("dangling-backslash")?;
        i += 1;
        let ch = match e {
            '"' => '"',
            '\\' => '\\',
            '/' => '/',
            'b' => '\u{8}',
            'f' => '\u{c}',
            'n' => '\n',
            'r' => '\r',
            't' => '\t',
            'u' => {
                let v = read4(&cs, i)?;
                i += 4;
                if (0xd800..0xdc00).contains(&v) {
                    if cs.get(i) != Some(&'\\') || cs.get(i + 1) != Some(&'u') {
                        return Err("lone-high-surrogate");
                    }
                    let lo = read4(&cs, i + 2)?;
                    i += 6;
                    if !(0xdc00..0xe000).contains(&lo) {
                        return Err("high-surrogate-not-followed-by-low");
                    }
                    char::from_u32(0x10000 + ((v - 0xd800) << 10) + (lo - 0xdc00)).ok_or("bad-pair")?
                } else if (0xdc00..0xe000).contains(&v) {
                    return Err("lone-low-surrogate");
                } else {
                    char::from_u32(v).ok_or("bad-code-point")?
                }
            }
            _ => return Err("unknown-escape"),
        };
        out.push((ch, true));
    }
    Ok(out)
}

fn char_class(c: char) -> &'static str {
    let cp = c as u32;
    match cp {
        0x22 => "quote",
        0x5c => "backslash",
        0x08 | 0x0c => "c0-b-f",
        0x09 | 0x0a | 0x0d => "c0-t-n-r",
        0..=0x1f => "c0-other",
        0x7f => "del",
        0x20..=0x7e => "ascii",
        0x80..=0x9f => "c1",
        0xa0..=0x7ff => "2-byte",
        0x800..=0xffff => "3-byte",
        _ => "astral",
    }
}

/// Run all four writers on `s`; `size` orders examples.
fn check_string(s: &str, size: usize, rep: &mut Report) {
    let want: Vec<char> = s.chars().collect();
    for (wi, (name, w)) in WRITERS.iter().enumerate() {
        rep.trans(1);
        let case = || json!({"kind":"writer","writer":name,"string":hex(s.as_bytes())});
        let out = match catch(|| {
            let mut o = String::new();
            let r = w(&mut o, s);
            (o, r)
        }) {
            Ok((o, Ok(()))) => o,
            Ok((_, Err(_))) => {
                rep.fail(&format!("writer:{name}:fmt-error"), size, case);
                continue;
            }
            Err(m) => {
                rep.fail(&format!("writer:{name}:panic"), size, || json!({"kind":"writer","writer":name,"string":hex(s.as_bytes()),"panic":m}));
                continue;
            }
        };
        let dec = match decode_body(&out) {
            Ok(d) => d,
            Err(why) => {
                rep.fail(&format!("writer:{name}:invalid-body:{why}"), size, || json!({"kind":"writer","writer":name,"string":hex(s.as_bytes()),"out":out}));
                continue;
            }
        };
        rep.evals(2);
        if dec.len() != want.len() || dec.iter().zip(&want).any(|(d, w)| d.0 != *w) {
            let cls = dec.iter().zip(&want).find(|(d, w)| d.0 != **w).map(|(_, w)| char_class(*w)).unwrap_or("length");
            rep.fail(&format!("writer:{name}:round-trip:{cls}"), size, || json!({"kind":"writer","writer":name,"string":hex(s.as_bytes()),"out":out}));
            continue;
        }
        for (c, escaped) in &dec {
            let must = must_escape(wi, *c);
            if *escaped != must {
                let dir = if *escaped { "escaped-but-not-required" } else { "required-but-raw" };
                rep.fail(&format!("writer:{name}:escape-set:{}:{dir}", char_class(*c)), size, || json!({"kind":"writer","writer":name,"string":hex(s.as_bytes()),"out":out,"char":*c as u32}));
                break;
            }
        }
        if wi % 2 == 1 && !out.is_ascii() {
            rep.fail(&format!("writer:{name}:non-ascii-output"), size, case);
        }
    }
}

fn scan_ref(b: &[u8], start: usize) -> usize {
    let mut i = start;
    while i < b.len() {
        if b[i] == b'"' || b[i] == b'\\' || b[i] < 0x20 {
            return i;
        }
        i += 1;
    }
    b.len()
}

fn byte_class(b: u8) -> &'static str {
    match b {
        b'"' => "quote",
        b'\\' => "backslash",
        0..=0x1f => "c0",
        0x20..=0x7f => "ascii-plain",
        _ => "high-bit",
    }
}

/// All scanner entry points on (buffer, start).
fn check_scan(buf: &[u8], start: usize, size: usize, rep: &mut Report) {
    let exp = scan_ref(buf, start);
    let mut one = |name: &str, got: Result<Option<usize>, String>, rep: &mut Report| {
        rep.trans(1);
        match got {
            Ok(None) => {}
            Ok(Some(g)) if g == exp => {}
            Ok(Some(g)) => {
                let what = if g > buf.len() {
                    "out-of-range".to_string()
                } else if g < start {
                    "before-start".to_string()
                } else if g < exp {
                    format!("false-hit-on-{}", byte_class(buf[g]))
                } else {
                    format!("missed-{}", if exp < buf.len() { byte_class(buf[exp]) } else { "end" })
                };
                rep.fail(&format!("scanner:{name}:{what}"), size, || json!({"kind":"scan","buf":hex(buf),"start":start,"engine":name,"got":g,"exp":exp}));
            }
            Err(m) => rep.fail(&format!("scanner:{name}:panic"), size, || json!({"kind":"scan","buf":hex(buf),"start":start,"engine":name,"panic":m})),
        }
    };
    one("dispatch", catch(|| Some(find_json_escape(buf, start))), rep);
    one("avx2", catch(|| find_json_escape_tier(buf, start, true)), rep);
    one("sse2", catch(|| find_json_escape_tier(buf, start, false)), rep);
    one("scalar", catch(|| Some(find_json_escape_scalar(buf, start))), rep);
}

const SPECIALS: [char; 14] = ['"', '\\', '\u{0}', '\u{1f}', '\n', '\u{7f}', '\u{80}', 'é', '😀', ' ', '\u{8}', '\u{c}', '\t', '\r'];
const FILLERS: [char; 4] = ['a', 'é', '€', '😀'];
const LENS: [usize; 11] = [15, 16, 17, 31, 32, 33, 47, 48, 49, 64, 70];
const DELTAS: [usize; 8] = [1, 2, 15, 16, 17, 31, 32, 33];

fn explore(ctx: &Ctx, rep: &mut Report) {
    // ---- (i) every scalar value
    let r = par_range_in(ctx, "writers/every-scalar-value", 0x11_0000, 8192, |cp, rep| {
        let Some(c) = char::from_u32(cp as u32) else { return };
        rep.input();
        let mut s = String::new();
        s.push(c);
        check_string(&s, cp as usize, rep);
        let s2 = format!("a{c}a");
        check_string(&s2, cp as usize, rep);
        if must_escape(0, c) || cp == 0x80 || cp == 0xe9 || cp == 0x1f600 {
            rep.distinct(&(0u8, cp));
        }
        if cp == 0x1f600 || cp == 0x7f || cp == 0x8 {
            rep.sample(|| {
                let outs: Vec<String> = WRITERS.iter().map(|(_, w)| { let mut o = String::new(); let _ = w(&mut o, &s); o }).collect();
                json!({"char": format!("U+{cp:04X}"), "jq/jq_ascii/yq/yq_ascii": outs})
            });
        }
    });
    rep.merge(r);
    if std::env::var("VERIF_TIMING").is_ok() { eprintln!("  t={:.1}s", ctx.start.elapsed().as_secs_f64()); }
    rep.mark_exhaustive("writers/every-scalar-value", "all 1 112 064 Unicode scalar values, alone and as a<c>a, x 4 writers");

    // ---- (ii) chunk-boundary placements
    let n = (FILLERS.len() * LENS.len()) as u64;
    let n_second: usize = ctx.pick(6, SPECIALS.len());
    let r = par_range_in(ctx, "writers/two-specials-at-chunk-boundaries", n, 1, |i, rep| {
        let filler = FILLERS[i as usize / LENS.len()];
        let len = LENS[i as usize % LENS.len()];
        let mut s = String::with_capacity(len * 4);
        for p1 in 0..len {
            for &s1 in &SPECIALS {
                for &d in &DELTAS {
                    let p2 = p1 + d;
                    for &s2 in &SPECIALS[..n_second] {
                        if p2 >= len && s2 != SPECIALS[0] {
                            continue; // second special falls outside: one representative only
                        }
                        s.clear();
                        for k in 0..len {
                            s.push(if k == p1 { s1 } else if k == p2 { s2 } else { filler });
                        }
                        rep.input();
                        rep.distinct(&(1u8, filler, len, p1, s1, p2.min(len), s2));
                        check_string(&s, 0x20_0000 + len, rep);
                    }
                }
            }
        }
    });
    rep.merge(r);
    if std::env::var("VERIF_TIMING").is_ok() { eprintln!("  t={:.1}s", ctx.start.elapsed().as_secs_f64()); }
    rep.mark_exhaustive("writers/two-specials-at-chunk-boundaries", "fillers {a, é, €, 😀} x lengths {15,16,17,31,32,33,47,48,49,64,70} (characters) x first special at every position x second special at p+{1,2,15,16,17,31,32,33}; 14 first specials x 6 (quick) / 14 (thorough) second specials");

    // ---- (iii) scanner
    let maxlen: usize = ctx.pick(66, 100);
    let fills: [u8; 4] = [b'a', 0x80, 0xe2, 0xff];
    let r = par_range_in(ctx, "scanner/every-byte-value-at-every-position", ((maxlen + 1) * 256) as u64, 64, |i, rep| {
        let len = i as usize / 256;
        let b = (i % 256) as u8;
        let fill = fills[(b as usize + len) % 4];
        let mut buf = vec![fill; len];
        if len == 0 {
            if b == 0 {
                rep.input();
                for start in 0..=2 {
                    check_scan(&buf, start, 0, rep);
                }
            }
            return;
        }
        for p in 0..len {
            buf[p] = b;
            rep.input();
            if p == len / 2 {
                rep.distinct(&(2u8, len, b));
            }
            for start in 0..=len + 1 {
                check_scan(&buf, start, len, rep);
            }
            buf[p] = fill;
        }
    });
    rep.merge(r);
    if std::env::var("VERIF_TIMING").is_ok() { eprintln!("  t={:.1}s", ctx.start.elapsed().as_secs_f64()); }
    rep.mark_exhaustive("scanner/every-byte-value-at-every-position", &format!("buffer lengths 0..={maxlen} x every position x every byte value (filler rotating over 61/80/e2/ff) x every start 0..=len+1 x 4 entry points"));
    // all four fillers explicitly for the class representatives (so every filler meets every special at every position)
    let reps: [u8; 12] = [b'"', b'\\', 0x00, 0x1f, 0x20, 0x21, 0x5b, 0x5d, 0x7f, 0x9c, 0xa2, 0xdc];
    let r = par_range_in(ctx, "scanner/class-representatives-x-fillers", ((maxlen + 1) * 4) as u64, 4, |i, rep| {
        let len = i as usize / 4;
        let fill = fills[i as usize % 4];
        let mut buf = vec![fill; len];
        for p in 0..len {
            for &b in &reps {
                buf[p] = b;
                rep.input();
                for start in 0..=len + 1 {
                    check_scan(&buf, start, len, rep);
                }
            }
            buf[p] = fill;
        }
    });
    rep.merge(r);
    if std::env::var("VERIF_TIMING").is_ok() { eprintln!("  t={:.1}s", ctx.start.elapsed().as_secs_f64()); }
    rep.mark_exhaustive("scanner/class-representatives-x-fillers", "12 class-representative bytes (incl. 0x22|0x80, 0x5c|0x80, 0x1c|0x80) at every position x 4 fillers x every length x every start");
    let pair_lens: &[usize] = if ctx.quick() { &[33, 70] } else { &[17, 33, 49, 64, 70, 97] };
    let sp: [u8; 4] = [b'"', b'\\', 0x00, 0x1f];
    let jobs: Vec<(usize, u8)> = pair_lens.iter().flat_map(|&l| fills.iter().map(move |&f| (l, f))).collect();
    let r = par_range_in(ctx, "scanner/two-specials-all-position-pairs", jobs.len() as u64, 1, |i, rep| {
        let (len, fill) = jobs[i as usize];
        let mut buf = vec![fill; len];
        for p1 in 0..len {
            for p2 in p1 + 1..len {
                for &a in &sp {
                    for &b in &sp {
                        buf[p1] = a;
                        buf[p2] = b;
                        rep.input();
                        for start in 0..=len {
                            check_scan(&buf, start, len, rep);
                        }
                    }
                }
                buf[p2] = fill;
            }
            buf[p1] = fill;
        }
    });
    rep.merge(r);
    if std::env::var("VERIF_TIMING").is_ok() { eprintln!("  t={:.1}s", ctx.start.elapsed().as_secs_f64()); }
    rep.mark_exhaustive("scanner/two-specials-all-position-pairs", &format!("lengths {pair_lens:?} x 4 fillers x all position pairs x 4x4 specials x every start"));

    rep.path("find_json_escape (dispatch)");
    rep.path("find_json_escape_scalar");
    if find_json_escape_tier(b"a", 0, false).is_some() {
        rep.path("find_json_escape_tier: SSE2");
    } else {
        rep.caps.push("SSE2 tier not available in this build".into());
    }
    if find_json_escape_tier(b"a", 0, true).is_some() {
        rep.path("find_json_escape_tier: AVX2 (32-byte loop + 16-byte SSE2 tail + scalar remainder)");
    } else {
        rep.caps.push("AVX2 tier not available on this host".into());
    }
    rep.extra.insert("specials".into(), json!(SPECIALS.iter().map(|c| format!("U+{:04X}", *c as u32)).collect::<Vec<_>>()));
    rep.extra.insert("scanner_max_len".into(), json!(maxlen));
}

fn replay(case: &Value, rep: &mut Report) {
    match case["kind"].as_str().unwrap_or("writer") {
        "scan" => {
            let buf = unhex(case["buf"].as_str().unwrap());
            check_scan(&buf, case["start"].as_u64().unwrap() as usize, buf.len(), rep);
        }
        _ => {
            let b = unhex(case["string"].as_str().unwrap());
            let s = String::from_utf8(b).expect("recorded string is UTF-8");
            check_string(&s, 0, rep);
        }
    }
}

fn main() {
    drive("C09", explore, replay);
}
