SPEC = dict(
    kind="py", module="c24", design_ref="§3-C24",
    technique="bounded-exhaustive enumeration of (jq program, JSON input) pairs through the real CLI code path, differential against a "
              "reference model of the jq 1.7.1 core fragment that is bound to the recorded jq-1.7.1 traces and cross-witnessed by jq 1.6",
    rule="programs: P(1) = every base term (~360: every nullary builtin of the fragment, every builtin with an argument template, every "
         "operator on ./literal pairs, paths, slices, construction, as-bindings and destructuring, reduce/foreach, if, try/catch, ?, "
         "label/break, //, assignment forms, format strings) plus the operator matrix (11 operators x 15 x 15 literal representatives of "
         "every type); P(2) = a | b over the base set (quick: 50 second stages) and every base term in 21 unary contexts ([a], (a)?, "
         "try/catch, map, first, limit, path, del, =, |=, //, if, reduce, isempty, as, -, not ...). inputs: 17 documents (null, booleans, "
         "small integers, 1.5, strings incl. non-ASCII, arrays, objects without duplicate keys; quick runs P(2) on 4 of them, thorough "
         "pipes on 12). A case is one (program, input) pair; non-trivial = distinct (output sequence, error) answer of the oracle. "
         "Pairs whose program hits a divergence listed in docs/compliance/jq/limitations.md (table keyed on construct) are excluded and "
         "counted; pairs the model does not cover are counted as outside the fragment; pairs on which jq 1.6 does not confirm the model "
         "(in its documented-1.6-behaviour mode) are counted as oracle-undetermined and are not judged.",
    level_text="Every enumerated pair is run through the real `succinctly jq -c PROGRAM` code path (clap parser + run_jq via the batch "
               "hook) and its stdout values, exit status and error message are compared with the model's jq 1.7.1 answer. A pair is "
               "judged only where two independent sources agree on jq's answer: the model (which reproduces byte for byte every "
               "recorded jq-1.7.1 golden case and error-table row inside its fragment - checked on every run, a miss is exit 2) and "
               "the installed jq 1.6, modulo a fixed documented list of 1.6 -> 1.7.1 changes. Disagreements are attributed to the "
               "minimal sub-program so one root cause yields one signature.",
    level_note="jq 1.7.1 itself is not installed: the oracle is a model. Trusted base = agreement with the 574 recorded traces inside the "
               "fragment and with jq 1.6 on each judged pair; nothing stronger is claimed. Outside the fragment (counted, never judged): "
               "regex and date builtins, number literals whose 1.7.1 canonical spelling differs from the shortest double rendering, "
               "fractional indices, ?//, $__loc__/input/env/halt/debug, builtins added in 1.7/1.7.1 without a recorded trace, path "
               "identity of equal non-scalar values. Transcendental libm results are compared to 4 ulp (the traces pin 6 digits only). "
               "jq 1.6 is consulted in bulk (hundreds of programs wrapped with try/catch markers in one jq process); the wrapping is "
               "re-checked against plain runs on a slice each run. Batch observations: 100 jobs re-run as real processes each run, "
               "and the example of every reported signature is confirmed by a real process. Thorough has a 13 min wall cap "
               "(unfinished shards are reported as a cap and the sub-space is marked non-exhaustive).",
    assumptions=["one JSON document per invocation, passed on stdin on one line followed by a newline (error location `<stdin>:1`)",
                 "the (at <stdin>:N) location prefix and the exit status 5 are compared, since the current CLI emits both like jq "
                 "(limitations.md still describes the older behaviour)",
                 "documented divergences are read from docs/compliance/jq/limitations.md only; docs/reference/jq-language.md lists further "
                 "known gaps, which are reported as findings with a note",
                 "programs deeper than P(2) and inputs beyond the 17 documents are out of scope"],
)
