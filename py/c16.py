"""C16 — YAML index independent of the SIMD dispatch level.

Three runs of the dump binary `c16` over one deterministic corpus:
    avx2    default build, no clamp            (AVX2 kernels where the host has them)
    sse2    default build, SUCCINCTLY_SIMD=sse2 (the clamp is read once per process)
    scalar  `scalar-yaml` feature build        (separate target dir)
Each run writes 4 x u64 per input (digest of format!("{:?}", YamlIndex), to_json_document,
stream_yaml_document, error/panic); the three streams must be byte-identical. Each run also
checks the public yaml::simd kernels against byte-at-a-time references in-process (those
failures arrive in the run's own report) and reports the dispatch level it actually observed
(classify width 32 / 16 / feature) — a clamp that did not take effect is a machinery error.
"""
import json, os, re
from concurrent.futures import ThreadPoolExecutor
import common

CONFIGS = [("avx2", "default", (), {}), ("sse2", "default", (), {"SUCCINCTLY_SIMD": "sse2"}), ("scalar", "scalar-yaml", ("scalar-yaml",), {})]
COMPONENTS = ["index-debug", "json", "yaml", "error"]


def first_field_diff(a, b):
    """Name of the first top-level field of the Debug rendering that differs."""
    i = next((k for k in range(min(len(a), len(b))) if a[k] != b[k]), min(len(a), len(b)))
    names = re.findall(r"([a-z_]+): ", a[:i])
    tops = [n for n in names if n in ("ib", "ib_len", "ib_rank", "bp", "ty", "ty_len", "open_positions", "bp_to_text_end", "containers", "containers_rank",
                                       "anchors", "bp_to_anchor", "aliases", "tags", "line_comments", "lines", "canonicalize_numbers")]
    return tops[-1] if tops else "start"


def classify(obs):
    """obs: {config: observation}. Returns signature or None."""
    names = [c[0] for c in CONFIGS]
    for comp, key in zip(COMPONENTS, ["debug", "json", "yaml", "err"]):
        vals = {n: obs[n][key] for n in names}
        if len(set(vals.values())) > 1:
            # which configuration is the odd one out
            groups = {}
            for n, v in vals.items():
                groups.setdefault(v, []).append(n)
            odd = sorted(groups.values(), key=len)[0]
            sig = f"config-dependent:{comp}:{'+'.join(odd)}-differs"
            if comp == "index-debug":
                other = next(n for n in names if n not in odd)
                sig += ":" + first_field_diff(vals[odd[0]], vals[other])
            return sig
    return None


def run_one(cfg, tier, extra, replay=None):
    name, variant, feats, env = cfg
    path = common.build_bin("c16", variant, feats)
    rep = common.run_bin(path, tier, replay, extra_args=extra + ["--threads", str(max(4, common.nproc() // 2))], env_extra=env,
                         timeout=900 if tier == "quick" else 3300)
    lvl = rep.get("extra", {}).get("dispatch_level_observed") or (rep.get("paths") or [None])[0]
    return rep, lvl


def check_levels(levels):
    if levels["sse2"] != "sse2":
        raise common.Machinery(f"SUCCINCTLY_SIMD=sse2 did not clamp dispatch (observed {levels['sse2']})")
    if levels["scalar"] != "scalar":
        raise common.Machinery(f"scalar-yaml build does not report the scalar level (observed {levels['scalar']})")
    if levels["avx2"] not in ("avx2", "sse2"):
        raise common.Machinery(f"default build reports level {levels['avx2']}")


def run(ctx):
    tier = ctx["tier"]
    if ctx["replay"]:
        case = json.load(open(ctx["replay"]))["case"]
        if case.get("kind") == "kernel":
            cfg = next((c for c in CONFIGS if c[0] == case.get("variant")), None)
            reps = [(c[0], run_one(c, tier, [], ctx["replay"])[0]) for c in ([cfg] if cfg else CONFIGS)]
            return common.merge_reports(reps)
        obs, reps = {}, []
        for c in CONFIGS:
            r, _ = run_one(c, tier, [], ctx["replay"])
            obs[c[0]] = r["extra"]["observation"]
            r["extra"] = {}
            reps.append((c[0], r))
        rep = common.merge_reports(reps)
        sig = classify(obs)
        if sig:
            rep["failures"].append({"signature": sig, "count": 1, "example": case})
        return rep
    d = os.path.join(common.CACHE, "cases")
    os.makedirs(d, exist_ok=True)
    files = {c[0]: os.path.join(d, f"c16-{c[0]}-{os.getpid()}.bin") for c in CONFIGS}
    # builds first (serial: cargo), then the three runs side by side
    for c in CONFIGS:
        common.build_bin("c16", c[1], c[2])
    try:
        with ThreadPoolExecutor(3) as ex:
            outs = list(ex.map(lambda c: run_one(c, tier, ["--digests", files[c[0]]]), CONFIGS))
        reps = {c[0]: o[0] for c, o in zip(CONFIGS, outs)}
        levels = {c[0]: o[1] for c, o in zip(CONFIGS, outs)}
        check_levels(levels)
        data = {n: open(f, "rb").read() for n, f in files.items()}
    finally:
        for f in files.values():
            try:
                os.remove(f)
            except OSError:
                pass
    n_inputs = {n: len(b) // 32 for n, b in data.items()}
    if len(set(n_inputs.values())) != 1 or any(len(b) % 32 for b in data.values()):
        raise common.Machinery(f"digest streams have different lengths: {n_inputs} (the corpus must not depend on the configuration)")
    merged = common.merge_reports([(n, reps[n]) for n, *_ in CONFIGS])
    ref = data["avx2"]
    diffs = []
    if not (data["sse2"] == ref and data["scalar"] == ref):
        n = len(ref) // 32
        for i in range(n):
            s = slice(32 * i, 32 * i + 32)
            if not (data["sse2"][s] == ref[s] == data["scalar"][s]):
                diffs.append(i)
    kd = {n: reps[n]["extra"].get("kernel_digest") for n in reps}
    if len(set(kd.values())) != 1:
        merged["failures"].append({"signature": "kernels:answers-differ-between-configurations", "count": 1,
                                   "example": {"kind": "kernel-digest", "digests": kd, "note": "see the kernel:* failures of the individual runs"}})
    if diffs:
        # fetch full observations of (at most 40) differing inputs from every configuration
        pick = diffs[:40]
        det = {}
        for c in CONFIGS:
            r, _ = run_one(c, tier, ["--detail", ",".join(map(str, pick))])
            det[c[0]] = {x["index"]: x for x in r["extra"]["details"]}
        by_sig = {}
        for i in pick:
            obs = {n: det[n][i] for n in det}
            sig = classify(obs) or "config-dependent:digest-only"
            e = by_sig.setdefault(sig, {"signature": sig, "count": 0, "example": None, "size": 1 << 60})
            e["count"] += 1
            size = len(obs["avx2"]["hex"]) // 2
            if size < e["size"]:
                e["size"] = size
                e["example"] = {"kind": "input", "hex": obs["avx2"]["hex"], "text": obs["avx2"]["text"], "space": obs["avx2"]["space"],
                                "observed": {n: {k: obs[n][k][:300] for k in ("json", "yaml", "err")} for n in obs}}
        total = len(diffs)
        for e in by_sig.values():
            e.pop("size")
            if len(by_sig) == 1:
                e["count"] = total
            merged["failures"].append(e)
    merged["extra"]["dispatch_levels"] = levels
    merged["extra"]["inputs_per_configuration"] = n_inputs["avx2"]
    merged["extra"]["digest_streams_identical"] = not diffs
    merged["extra"]["differing_inputs"] = len(diffs)
    merged["paths"] = [f"{n}:{levels[n]}" for n, *_ in CONFIGS]
    return merged
