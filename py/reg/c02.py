SPEC = dict(
    kind="rust",
    bins=rust("c02", (("default", ()), ("simd", ("simd",)), ("portable-popcount", ("portable-popcount",)))),
    design_ref="§3-C02",
    technique="bounded-exhaustive enumeration structured by the kernels' lanes (byte tables, 16-bit SWAR lanes, PDEP deposit, nibble LUT), "
              "every rank / start bit, every dispatch path driven directly through verif_hooks",
    rule="words: all with popcount <=3 (thorough: <=4; thorough default build: <=5) and their complements; every 16-bit pattern in each of the 4 lanes "
         "with the other lanes = {0, ffff, aaaa (thorough also 5555, 00ff, 8001, complement)} or the pattern itself; every byte value in each "
         "of 8 byte lanes over 7 backgrounds; all words of <=4 (thorough <=5) runs. Each word x every k in 0..=64 and {65,127,128,255,u32::MAX} on "
         "select_in_word (dispatch), _ctz, _broadword, _pdep, and x every start bit 0..=64 and {65,127,128,u32::MAX} on find_close_in_word, plus "
         "find_unmatched_close_in_word, popcount_word, popcount_word_portable. select_in_byte: all 256 bytes x k 0..=8 (complete). Blocks: "
         "every byte value at each of 64 byte positions over 5 backgrounds, all blocks over W8 with <=3 (thorough <=4) non-filler words, on "
         "block_popcount_portable / dispatch / avx2 and popcount_words; slices of 0..65 words for popcount_words. Distinct non-trivial = a new "
         "word with 0 < popcount < 64 (blocks: 0 < popcount < 512)",
    level_text="Every word of the structured families is run through every select path (PDEP, CTZ loop, broadword, dispatcher), both "
               "popcounts and both parenthesis kernels for every rank / start bit, and compared with answers obtained by counting bits one "
               "at a time; likewise every enumerated 8-word block on every block-popcount path. select_in_byte is checked completely.",
    level_note="Not all 2^64 words: the families are chosen along the kernels' internal lanes. Paths exercised are those present on this "
               "x86-64 host (BMI2 PDEP, AVX2, and in the simd build AVX-512 VPOPCNTDQ where detected; NEON / SVE2 absent) and are listed in the evidence. The bit "
               "counter of the oracle is self-tested against core's count_ones on every word.",
    assumptions=["a kernel defect that needs >5 set bits AND >5 runs AND more than one non-background 16-bit lane is outside the space"],
)
