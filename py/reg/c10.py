SPEC = dict(
    kind="rust",
    bins=rust("c10"),
    design_ref="§3-C10",
    technique="bounded-exhaustive enumeration over structured doubles (every binary exponent x mantissa patterns, decimal/power neighbourhoods), i64 families and a "
              "number-literal grammar, composed print -> read back against a correctly rounded reader",
    rule="floats: all 2047 finite binary exponents x 212 (quick) / 1487 (thorough) mantissa patterns x both signs; every power of ten (and 2/5/9 times it) +-3 ulp, 2^k and 2^-k "
         "neighbourhoods, n*10^j grid (n <= 9999 quick / 99999 thorough, j -30..=30); x 5 formatters. integers: i64 extremes, +-(2^k, d*10^k)+-1, repdigits. literals: sign x 16 int parts x "
         "12 fraction parts x 205 exponent spellings, kept when the value is a finite double. A case is distinct+non-trivial by its bit pattern / integer / literal text "
         "(pattern family: by magnitude class, popcount and exponent bucket).",
    level_text="Every enumerated finite double is printed by the jq float printer and the four yq float printers and must read back bit-for-bit (and be a JSON number / a YAML core "
               "number respectively); every enumerated i64 must print as its exact decimal through OwnedValue, from_number_bytes and the YAML->JSON scalar writers; every literal "
               "denoting a finite double must print, via from_number_bytes.to_json, format_number_jq_compat and the yq YAML->JSON writers, as a JSON number of equal value.",
    level_note="Reader = Rust str::parse::<f64> (correctly rounded). The CLI layer on top of these functions is covered by C11/C15/C27, not here. "
               "Literals outside the JSON grammar that jq's reader tolerates (007, .5, 1.) are checked in a separate 'lenient-literal' family.",
    assumptions=["the double space is covered by structure (exponent x mantissa patterns, decimal neighbourhoods), not exhaustively: 2^64 values are out of reach",
                 "literals with more than 27 significant digits or 3-digit exponents beyond the listed ones are out of scope"],
)
