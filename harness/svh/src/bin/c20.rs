//! C20 — the DSV index does not depend on the indexing engine.
//!
//! S4 + S5. Reference: an own 2-state DFA (`dsvref::scan`). Every string over the
//! four byte classes {other, delimiter, quote, separator} up to the bound is
//! placed at chunk offsets under both carry-in quote states and with several
//! suffix lengths; every engine (scalar, SSE2, AVX2, BMI2, dispatcher) builds its
//! index and **every** `markers_*`/`newlines_*` rank and select answer is compared
//! with the reference (rank for all i in 0..=len+2 and usize::MAX, select for all
//! k in 0..=count+1 and usize::MAX), plus marker_count/row_count/is_empty.
//! Further families: quote runs 1..=130 at every offset, all distinct special-byte
//! triples over a 13-byte set on a sub-corpus, all 256 values per role singly and
//! all 256 values of the "other" byte.
use engine::*;
use serde_json::{json, Value};
use succinctly::dsv::{self, DsvConfig, DsvIndex};

#[path = "../dsvref.rs"]
mod dsvref;
use dsvref::{rank_table, scan, Cfg, Scan};

const OFFSETS: [usize; 15] = [0, 1, 15, 16, 31, 32, 33, 47, 48, 62, 63, 64, 65, 127, 128];
const SUFFIXES: [usize; 3] = [0, 1, 70];
const TRIPLE_BYTES: [u8; 13] = [0x00, 0x09, 0x0a, 0x0d, 0x20, 0x22, 0x27, 0x2c, 0x3b, 0x7c, 0x7f, 0x80, 0xff];

#[derive(Clone, Copy, PartialEq, Eq, Debug)]
enum Engine {
    Scalar,
    Sse2,
    Avx2,
    Bmi2,
    Dispatch,
}

impl Engine {
    fn name(self) -> &'static str {
        match self {
            Engine::Scalar => "scalar",
            Engine::Sse2 => "sse2",
            Engine::Avx2 => "avx2",
            Engine::Bmi2 => "bmi2",
            Engine::Dispatch => "dispatch",
        }
    }
    fn from_name(s: &str) -> Engine {
        match s {
            "scalar" => Engine::Scalar,
            "sse2" => Engine::Sse2,
            "avx2" => Engine::Avx2,
            "bmi2" => Engine::Bmi2,
            "dispatch" => Engine::Dispatch,
            o => panic!("unknown engine {o}"),
        }
    }
    fn build(self, t: &[u8], c: &DsvConfig) -> DsvIndex {
        match self {
            Engine::Scalar => dsv::build_index_scalar(t, c),
            Engine::Sse2 => dsv::simd::sse2::build_index_simd(t, c),
            Engine::Avx2 => dsv::simd::avx2::build_index_simd(t, c),
            Engine::Bmi2 => dsv::simd::bmi2::build_index_simd(t, c),
            Engine::Dispatch => dsv::build_index(t, c),
        }
    }
}

/// Engines that may run on this host (AVX2/BMI2 intrinsics on a CPU without
/// them would be undefined behaviour, not a finding).
fn engines() -> Vec<Engine> {
    let mut v = vec![Engine::Scalar, Engine::Sse2];
    let avx2 = std::arch::is_x86_feature_detected!("avx2");
    let bmi2 = std::arch::is_x86_feature_detected!("bmi2");
    if avx2 {
        v.push(Engine::Avx2);
    }
    if avx2 && bmi2 {
        v.push(Engine::Bmi2);
    }
    v.push(Engine::Dispatch);
    v
}

fn real_cfg(c: &Cfg) -> DsvConfig {
    DsvConfig { delimiter: c.delimiter, quote_char: c.quote, newline: c.newline }
}

/// Expected answers for one text, computed once and shared by all engines.
struct Expect {
    sc: Scan,
    mrank: Vec<usize>,
    nrank: Vec<usize>,
}

fn expect(t: &[u8], c: &Cfg) -> Expect {
    let sc = scan(t, c);
    let mrank = rank_table(&sc.markers, t.len());
    let nrank = rank_table(&sc.newlines, t.len());
    Expect { sc, mrank, nrank }
}

/// Structural feature of a disagreement at text position `pos` (for the signature).
fn feature(t: &[u8], c: &Cfg, pos: usize) -> &'static str {
    let pos = pos.min(t.len().saturating_sub(1));
    let chunk = pos / 64;
    let tail = chunk * 64 + 64 > t.len();
    // is there a quote in the same chunk before pos?
    let q_same = t[chunk * 64..=pos].iter().any(|&b| b == c.quote);
    let q_before = t[..chunk * 64].iter().any(|&b| b == c.quote);
    match (q_same, q_before, tail) {
        (false, true, false) => "carry-into-full-chunk",
        (false, true, true) => "carry-into-tail",
        (true, _, false) => "quote-in-chunk",
        (true, _, true) => "quote-in-tail",
        (false, false, false) => "no-quote-before",
        (false, false, true) => "no-quote-before-tail",
    }
}

/// Compare every answer of `ix` with the reference. Returns the number of API
/// calls made. On a disagreement reports one failure and stops.
fn check_index(eng: Engine, fam: &str, t: &[u8], c: &Cfg, ix: &DsvIndex, e: &Expect, rep: &mut Report) -> u64 {
    let len = t.len();
    let mut calls = 0u64;
    let name = eng.name();
    let fail = |rep: &mut Report, what: &str, pos: usize, detail: Value| {
        let feat = if len == 0 { "empty" } else { feature(t, c, pos) };
        rep.fail(&format!("{name}:{what}:{feat}"), len, || {
            json!({"kind":"index","family":fam,"engine":name,"cfg":c.to_json(),"text":hex(t),"what":what,"detail":detail})
        });
    };
    // select: all k in 0..=count+1 and usize::MAX
    for (which, pos) in [("markers_select1", &e.sc.markers), ("newlines_select1", &e.sc.newlines)] {
        let n = pos.len();
        for k in (0..n + 2).chain([usize::MAX]) {
            let got = if which == "markers_select1" { ix.markers_select1(k) } else { ix.newlines_select1(k) };
            calls += 1;
            let exp = pos.get(k).copied();
            if got != exp {
                let p = exp.or(got).unwrap_or(0);
                fail(rep, which, p, json!({"k":k,"got":got,"exp":exp}));
                return calls;
            }
        }
    }
    // rank: all i in 0..=len+2 and usize::MAX
    for i in (0..len + 3).chain([usize::MAX]) {
        let em = e.mrank[i.min(len)];
        let en = e.nrank[i.min(len)];
        let gm = ix.markers_rank1(i);
        let gn = ix.newlines_rank1(i);
        calls += 2;
        if gm != em {
            fail(rep, "markers_rank1", i.min(len).saturating_sub(1), json!({"i":i,"got":gm,"exp":em}));
            return calls;
        }
        if gn != en {
            fail(rep, "newlines_rank1", i.min(len).saturating_sub(1), json!({"i":i,"got":gn,"exp":en}));
            return calls;
        }
    }
    calls += 3;
    if ix.marker_count() != e.sc.markers.len() {
        fail(rep, "marker_count", 0, json!({"got":ix.marker_count(),"exp":e.sc.markers.len()}));
    }
    if ix.row_count() != e.sc.newlines.len() {
        fail(rep, "row_count", 0, json!({"got":ix.row_count(),"exp":e.sc.newlines.len()}));
    }
    if ix.is_empty() != (len == 0) {
        fail(rep, "is_empty", 0, json!({"got":ix.is_empty()}));
    }
    calls
}

/// Run all engines on one text.
fn check_text(engs: &[Engine], fam: &str, t: &[u8], c: &Cfg, rep: &mut Report) {
    let e = expect(t, c);
    let rc = real_cfg(c);
    rep.input();
    for &eng in engs {
        match catch(|| eng.build(t, &rc)) {
            Ok(ix) => {
                let n = check_index(eng, fam, t, c, &ix, &e, rep);
                rep.trans(n);
            }
            Err(msg) => {
                rep.trans(1);
                rep.fail(&format!("PANIC:{}:build", eng.name()), t.len(), || {
                    json!({"kind":"index","family":fam,"engine":eng.name(),"cfg":c.to_json(),"text":hex(t),"panic":msg})
                });
            }
        }
    }
}

/// Build the placed text: `[q o^63]` if carry-in, `o^p`, `s`, `o^post`.
/// The carry quote sits at bit 63 of a full chunk of its own, the position where
/// the chunk carry cannot be derived from an adder overflow.
fn place(buf: &mut Vec<u8>, c: &Cfg, other: u8, carry: bool, p: usize, s: &[u8], post: usize) {
    buf.clear();
    if carry {
        buf.extend(std::iter::repeat(other).take(63));
        buf.push(c.quote);
    }
    buf.extend(std::iter::repeat(other).take(p));
    buf.extend_from_slice(s);
    buf.extend(std::iter::repeat(other).take(post));
}

/// non-trivial: quoting (or the carry-in state) suppresses at least one
/// delimiter/separator byte, or a quote sits at bit 63 of a full chunk.
fn nontrivial(t: &[u8], c: &Cfg, sc: &Scan) -> bool {
    let raw = t.iter().filter(|&&b| b == c.delimiter || b == c.newline).count();
    raw != sc.markers.len() || t.iter().enumerate().any(|(i, &b)| b == c.quote && i % 64 == 63 && i + 1 < t.len())
}

/// All placements of one window.
fn sweep_window(engs: &[Engine], space: &str, c: &Cfg, other: u8, s: &[u8], rep: &mut Report) {
    let mut buf = Vec::with_capacity(300);
    let mut nt = false;
    for &p in &OFFSETS {
        for carry in [false, true] {
            for &post in &SUFFIXES {
                place(&mut buf, c, other, carry, p, s, post);
                check_text(engs, space, &buf, c, rep);
                if !nt {
                    let sc = scan(&buf, c);
                    nt = nontrivial(&buf, c, &sc);
                }
            }
        }
    }
    if nt {
        rep.distinct(&(c, s));
    }
    if s.len() == 5 && s[0] == c.quote && s[4] == c.newline && s[2] == c.delimiter && s[1] == other && s[3] == c.quote {
        rep.sample(|| json!({"family":space,"cfg":c.to_json(),"window":show(s),"placements":"15 offsets x carry in/out x suffix {0,1,70}","engines":engs.iter().map(|e|e.name()).collect::<Vec<_>>()}));
    }
}

/// Every window of length 0..=maxlen.
fn sweep(ctx: &Ctx, engs: &[Engine], name: &str, c: Cfg, maxlen: u32, rep: &mut Report) {
    let other = c.other(b'o');
    let alpha_bytes = [[other], [c.delimiter], [c.quote], [c.newline]];
    let alpha: Vec<&[u8]> = alpha_bytes.iter().map(|a| &a[..]).collect();
    let space = format!("sweep/{name}");
    let r = par_strings(ctx, &space, &alpha, maxlen, |s, _idx, rep| sweep_window(engs, &space, &c, other, s, rep));
    rep.merge(r);
}

/// Every window of length exactly `len`, under a wall budget: windows not started
/// before the budget expires are skipped and the sub-space is reported as capped
/// (never a verdict).
fn sweep_exact(ctx: &Ctx, engs: &[Engine], name: &str, c: Cfg, len: u32, budget_s: f64, rep: &mut Report) {
    let other = c.other(b'o');
    let sym = [other, c.delimiter, c.quote, c.newline];
    let space = format!("sweep/{name}/len{len}");
    let n = pow(4, len);
    let skipped = std::sync::atomic::AtomicU64::new(0);
    let r = par_range_in(ctx, &space, n, 4096, |i, rep| {
        if ctx.start.elapsed().as_secs_f64() > budget_s {
            skipped.fetch_add(1, std::sync::atomic::Ordering::Relaxed);
            return;
        }
        let mut s = [0u8; 16];
        let mut x = i;
        for k in (0..len as usize).rev() {
            s[k] = sym[(x % 4) as usize];
            x /= 4;
        }
        sweep_window(engs, &space, &c, other, &s[..len as usize], rep);
    });
    rep.merge(r);
    let sk = skipped.into_inner();
    if sk == 0 {
        rep.mark_exhaustive(&space, &format!("all {n} windows of length {len} over 4 symbols"));
    } else {
        rep.caps.push(format!("{space}: wall budget of {budget_s:.0} s reached, {sk} of {n} windows of length {len} not explored (all shorter windows were)"));
    }
}

/// Sub-corpus (~200 class strings, each already placed) used for the
/// configuration families. Returned as class strings over 0=other 1=delim
/// 2=quote 3=separator.
fn subcorpus() -> Vec<Vec<u8>> {
    let mut out: Vec<Vec<u8>> = Vec::new();
    // all class strings of length <= 3 at offset 0
    for s in gen::sequences(&[0u8, 1, 2, 3], 3) {
        out.push(s);
    }
    // length <= 2 at offsets 62 and 63, with and without an open quote in chunk 0
    for s in gen::sequences(&[0u8, 1, 2, 3], 2) {
        for p in [62usize, 63] {
            for carry in [false, true] {
                let mut t = vec![0u8; p];
                if carry {
                    t[0] = 2;
                }
                t.extend_from_slice(&s);
                t.extend_from_slice(&[1, 3, 0]);
                out.push(t);
            }
        }
    }
    // a quoted region spanning two full chunks, then structure
    let mut t = vec![2u8];
    t.extend(std::iter::repeat(1u8).take(130));
    t.extend_from_slice(&[3, 2, 1, 3, 0, 1]);
    out.push(t);
    // every class at every position of a 16-byte lane boundary run
    for k in 0..4u8 {
        let mut t: Vec<u8> = (0..70).map(|i| if i % 5 == 0 { k } else { 0 }).collect();
        t.push(3);
        out.push(t);
    }
    out
}

fn render(classes: &[u8], c: &Cfg, other: u8) -> Vec<u8> {
    classes
        .iter()
        .map(|&k| match k {
            0 => other,
            1 => c.delimiter,
            2 => c.quote,
            _ => c.newline,
        })
        .collect()
}

fn config_families(ctx: &Ctx, engs: &[Engine], rep: &mut Report) {
    let corpus = subcorpus();
    // (a) all distinct triples over the 13-byte set
    let mut cfgs: Vec<(String, Cfg, u8)> = Vec::new();
    for &d in &TRIPLE_BYTES {
        for &q in &TRIPLE_BYTES {
            for &n in &TRIPLE_BYTES {
                let c = Cfg { delimiter: d, quote: q, newline: n };
                if c.distinct() {
                    cfgs.push(("config/triples".into(), c, c.other(b'o')));
                }
            }
        }
    }
    let ntriples = cfgs.len();
    // (b) all 256 values per role singly, the other roles at their CSV defaults
    for v in 0..=255u8 {
        for role in 0..3 {
            let mut c = Cfg::CSV;
            match role {
                0 => c.delimiter = v,
                1 => c.quote = v,
                _ => c.newline = v,
            }
            if c.distinct() {
                cfgs.push((format!("config/single-role-{}", ["delimiter", "quote", "newline"][role]), c, c.other(b'o')));
            }
        }
    }
    // (c) all 256 values of the "other" byte under two configurations
    for c in [Cfg::CSV, Cfg { delimiter: 0x80, quote: 0xff, newline: 0x00 }] {
        for v in 0..=255u8 {
            if v != c.delimiter && v != c.quote && v != c.newline {
                cfgs.push(("config/other-byte".into(), c, v));
            }
        }
    }
    let r = par_range(ctx, cfgs.len() as u64, 8, |i, rep| {
        let (fam, c, other) = &cfgs[i as usize];
        rep.space(fam);
        for cl in &corpus {
            let t = render(cl, c, *other);
            check_text(engs, fam, &t, c, rep);
        }
        rep.distinct(&(c, other));
        if i as usize == ntriples - 1 {
            rep.sample(|| json!({"family":fam,"cfg":c.to_json(),"other":other,"corpus_strings":corpus.len()}));
        }
    });
    rep.merge(r);
    for k in ["config/triples", "config/single-role-delimiter", "config/single-role-quote", "config/single-role-newline", "config/other-byte"] {
        rep.mark_exhaustive(k, &format!("every configuration of the family x a fixed sub-corpus of {} placed strings", corpus.len()));
    }
    rep.extra.insert("triple_bytes".into(), json!(TRIPLE_BYTES));
    rep.extra.insert("distinct_triples".into(), json!(ntriples));
}

fn quote_runs(ctx: &Ctx, engs: &[Engine], rep: &mut Report) {
    let maxp: u64 = ctx.pick(66, 131);
    let cfgs = [Cfg::CSV, Cfg { delimiter: 0x80, quote: 0xff, newline: 0x00 }];
    let r = par_range_in(ctx, "quote-runs", maxp * 130, 64, |i, rep| {
        let p = (i / 130) as usize;
        let run = (i % 130) as usize + 1;
        for c in &cfgs {
            let other = c.other(b'o');
            for carry in [false, true] {
                for gap in [0usize, 1, 63, 64] {
                    let mut t = Vec::new();
                    if carry {
                        t.push(c.quote);
                    }
                    t.extend(std::iter::repeat(other).take(p));
                    t.extend(std::iter::repeat(c.quote).take(run));
                    t.extend_from_slice(&[c.delimiter, c.newline]);
                    t.extend(std::iter::repeat(other).take(gap));
                    t.extend_from_slice(&[c.delimiter, c.newline, other]);
                    check_text(engs, "quote-runs", &t, c, rep);
                }
            }
        }
        rep.distinct(&("run", p, run));
    });
    rep.merge(r);
    rep.mark_exhaustive("quote-runs", &format!("quote runs of 1..=130 at every offset 0..{maxp} x carry in/out x gap {{0,1,63,64}} x 2 configurations, followed by delimiter+separator probes"));
}

fn explore(ctx: &Ctx, rep: &mut Report) {
    dsvref::selftest();
    let engs = engines();
    for e in &engs {
        rep.path(e.name());
    }
    if !engs.contains(&Engine::Avx2) || !engs.contains(&Engine::Bmi2) {
        rep.caps.push("host CPU lacks AVX2 and/or BMI2: those engines were not run".into());
    }
    let hi = Cfg { delimiter: 0x80, quote: 0xff, newline: 0x00 };
    let tsv = Cfg { delimiter: b'\t', quote: b'\'', newline: b'\r' };
    let main_len = ctx.pick(8, 10);
    let side_len = ctx.pick(6, 8);
    sweep(ctx, &engs, "csv", Cfg::CSV, main_len, rep);
    sweep(ctx, &engs, "high-bytes-0x80-0xff-0x00", hi, side_len, rep);
    sweep(ctx, &engs, "tab-apostrophe-cr", tsv, side_len, rep);
    quote_runs(ctx, &engs, rep);
    config_families(ctx, &engs, rep);
    if ctx.thorough() {
        // length 11 last, under a wall budget (it is 3/4 of the whole cost)
        let budget = ctx.arg("--len11-budget").and_then(|s| s.parse().ok()).unwrap_or(660.0);
        sweep_exact(ctx, &engs, "csv", Cfg::CSV, 11, budget, rep);
    }
    rep.extra.insert("offsets".into(), json!(OFFSETS));
    rep.extra.insert("suffixes".into(), json!(SUFFIXES));
    rep.extra.insert("carry_in".into(), json!(["outside", "inside (quote at bit 63 of a preceding full chunk)"]));
    rep.extra.insert("window_length".into(), json!({"csv": if ctx.thorough() { 11 } else { main_len }, "other configurations": side_len}));
    rep.extra.insert("queries".into(), json!("markers/newlines rank1(i) for i in 0..=len+2 and usize::MAX; select1(k) for k in 0..=count+1 and usize::MAX; marker_count,row_count,is_empty"));
}

fn replay(case: &Value, rep: &mut Report) {
    let c = Cfg::from_json(&case["cfg"]);
    let t = unhex(case["text"].as_str().unwrap());
    let fam = case["family"].as_str().unwrap_or("replay").to_string();
    let engs: Vec<Engine> = match case["engine"].as_str() {
        Some(e) => vec![Engine::from_name(e)],
        None => engines(),
    };
    check_text(&engs, &fam, &t, &c, rep);
}

fn main() {
    drive("C20", explore, replay);
}
