//! C28 — jq-locate expressions evaluate to the located JSON node (library
//! composition).
//!
//! For every duplicate-free J(n) document (all whitespace variants, keys that
//! need bracket notation, non-ASCII keys, nested arrays) and EVERY byte offset:
//! the generator classifies the offset (inside a scalar token / inside a key
//! token / on a container's opening bracket / elsewhere). For qualifying
//! offsets: `json::locate::locate_offset_detailed` must answer, its byte range
//! must be the token's / container's span, `locate_offset` must give the same
//! expression, the expression must parse with `jq::parse` and `jq::eval` from
//! the root must produce exactly one value equal to the node's value (for a
//! key: the value it names). `at_offset(o)` and `at_position(l; c)` — evaluated
//! through `jq::eval_generic::eval_with_cursor`, the route the CLI uses — must
//! yield the token's own value (the key string for a key).
//! Non-qualifying offsets are only required not to panic.
use engine::*;
use serde_json::{json, Value};
use succinctly::jq::{self, eval_generic, JqSemantics, OwnedValue, NumberRepr};
use succinctly::json::locate::{locate_offset, locate_offset_detailed};
use succinctly::json::JsonIndex;

#[path = "../jgen.rs"]
mod jgen;

use jgen::{Alphabet, Doc, Kind, Space, Ws, JV, WS};

fn num_eq(r: &NumberRepr, f: f64, i: Option<i64>) -> bool {
    match (r, i) {
        (NumberRepr::Int(a), Some(b)) => *a == b,
        (NumberRepr::Int(a), None) => (*a as f64) == f,
        (NumberRepr::Float(x), _) => *x == f,
    }
}

/// Value equality of an evaluator result with the generator's value.
fn ov_eq(o: &OwnedValue, j: &JV) -> Result<(), &'static str> {
    match (o, j) {
        (OwnedValue::Null, JV::Null) => Ok(()),
        (OwnedValue::Bool(a), JV::Bool(b)) if a == b => Ok(()),
        (OwnedValue::Int(a), JV::Num { f, i, .. }) if num_eq(&NumberRepr::Int(*a), *f, *i) => Ok(()),
        (OwnedValue::Float(a), JV::Num { f, i, .. }) if num_eq(&NumberRepr::Float(*a), *f, *i) => Ok(()),
        (OwnedValue::NumberLiteral(r, _), JV::Num { f, i, .. }) if num_eq(r, *f, *i) => Ok(()),
        (OwnedValue::Int(_) | OwnedValue::Float(_) | OwnedValue::NumberLiteral(..), JV::Num { .. }) => Err("number"),
        (OwnedValue::String(a), JV::Str(b)) if a == b => Ok(()),
        (OwnedValue::String(_), JV::Str(_)) => Err("string"),
        (OwnedValue::Array(a), JV::Arr(b)) => {
            if a.len() != b.len() {
                return Err("array-length");
            }
            for (x, y) in a.iter().zip(b) {
                ov_eq(x, y)?;
            }
            Ok(())
        }
        (OwnedValue::Object(m), JV::Obj(b)) => {
            // documents are duplicate-free here; order of keys is not demanded
            if m.len() != b.len() {
                return Err("object-size");
            }
            for (k, v) in b {
                match m.get(k.as_str()) {
                    Some(x) => ov_eq(x, v)?,
                    None => return Err("object-key-missing"),
                }
            }
            Ok(())
        }
        _ => Err("kind"),
    }
}

#[derive(Clone, Copy, PartialEq)]
enum Class {
    Scalar,
    Key,
    Open,
}

/// Generator-side classification of every offset: (node id, class) or None.
fn classify(doc: &Doc) -> Vec<Option<(usize, Class)>> {
    let mut v = vec![None; doc.text.len()];
    for (id, n) in doc.nodes.iter().enumerate() {
        match n.kind {
            Kind::Arr | Kind::Obj => v[n.start] = Some((id, Class::Open)),
            _ => {
                for o in n.start..n.end {
                    v[o] = Some((id, if n.is_key { Class::Key } else { Class::Scalar }));
                }
            }
        }
    }
    v
}

fn one_value<'a>(vals: &'a [OwnedValue], is_err: bool) -> Result<&'a OwnedValue, &'static str> {
    if is_err {
        return Err("eval-error");
    }
    match vals.len() {
        1 => Ok(&vals[0]),
        0 => Err("no-output"),
        _ => Err("several-outputs"),
    }
}

fn check_doc(doc: &Doc, rep: &mut Report) {
    let t = &doc.text[..];
    let size = t.len();
    let cls = classify(doc);
    let fail = |rep: &mut Report, sig: String, extra: Value| {
        rep.fail(&sig, size, || {
            let mut c = doc.case();
            c["detail"] = extra;
            c
        })
    };
    let ix = JsonIndex::build(t);
    let root = ix.root(t);
    for o in 0..t.len() {
        let Some((id, class)) = cls[o] else {
            // not covered by the statement: only crash containment
            rep.evals(1);
            guard(rep, "PANIC:locate:non-qualifying-offset", size, || json!({"doc": doc.id, "offset": o}), |_| {
                let _ = locate_offset_detailed(&ix, t, o);
            });
            continue;
        };
        let n = &doc.nodes[id];
        let cname = match class {
            Class::Scalar => format!("scalar:{}", n.kind.name()),
            Class::Key => "key".to_string(),
            Class::Open => format!("open:{}", n.kind.name()),
        };
        let pos = if o == n.start { "first-byte" } else if o + 1 == n.end { "last-byte" } else { "interior" };
        let target = match class {
            Class::Key => n.names.unwrap(),
            _ => id,
        };
        let exp_val = doc.value(target);
        let own_val = doc.value(id);
        let ok = guard(rep, &format!("PANIC:locate:{cname}"), size, || json!({"doc": doc.id, "offset": o}), |rep| {
            rep.trans(2);
            let Some(r) = locate_offset_detailed(&ix, t, o) else {
                fail(rep, format!("locate_offset_detailed:none:{cname}"), json!({"offset": o, "position_in_token": pos}));
                return;
            };
            if r.byte_range != (n.start, n.end) {
                fail(rep, format!("locate:byte_range:{cname}"), json!({"offset": o, "position_in_token": pos, "got": [r.byte_range.0, r.byte_range.1], "exp": [n.start, n.end], "expr": r.expression}));
            }
            let lo = locate_offset(&ix, t, o);
            if lo.as_deref() != Some(r.expression.as_str()) {
                fail(rep, format!("locate_offset:differs-from-detailed:{cname}"), json!({"offset": o, "got": lo, "detailed": r.expression}));
            }
            rep.trans(2);
            let key_feat = |doc: &Doc| -> &'static str {
                // minimal structural feature of the path: does some key on the path need bracket notation?
                let mut cur = Some(target);
                let mut f = "dot-keys-and-indices";
                while let Some(c) = cur {
                    let p = doc.nodes[c].parent;
                    if let Some(p) = p {
                        if doc.nodes[p].kind == Kind::Obj {
                            let ks = &doc.nodes[p].kids;
                            let pos = ks.iter().position(|&x| x == c).unwrap();
                            let name = doc.key_name(ks[pos - 1]);
                            const KEYWORDS: [&str; 22] = ["and", "or", "not", "if", "then", "elif", "else", "end", "as", "def", "reduce", "foreach", "try", "catch", "label", "import", "include", "__loc__", "true", "false", "null", "limit"];
                            if KEYWORDS.contains(&name) {
                                // takes precedence: `.and` is not a path expression in jq
                                return "keyword-key";
                            }
                            if name.is_empty() {
                                f = "empty-key";
                            } else if !name.is_ascii() {
                                f = "non-ascii-key";
                            } else if !name.chars().all(|c| c.is_ascii_alphanumeric() || c == '_') || name.as_bytes()[0].is_ascii_digit() {
                                f = "bracket-key";
                            }
                        }
                    }
                    cur = p;
                }
                f
            };
            let parsed = match catch(|| jq::parse(&r.expression)) {
                Ok(p) => p,
                Err(msg) => {
                    let b = r.expression.as_bytes();
                    let feat = if b.windows(3).any(|w| w[0] == b']' && w[1] == b'.' && w[2] >= 0x80) { "non-ascii-dot-key-after-bracket" } else { "other" };
                    fail(rep, format!("expression:parse-panic:{feat}"), json!({"offset": o, "expr": r.expression, "panic": msg}));
                    return;
                }
            };
            match parsed {
                Err(e) => fail(rep, format!("expression:parse-error:path-with-{}", key_feat(doc)), json!({"offset": o, "expr": r.expression, "error": format!("{e:?}")})),
                Ok(e) => {
                    let q = jq::eval::<Vec<u64>, JqSemantics>(&e, root);
                    let is_err = q.is_error();
                    let vals = q.collect_owned();
                    match one_value(&vals, is_err).and_then(|v| ov_eq(v, &exp_val)) {
                        Ok(()) => {}
                        Err(w) => {
                            let what = if matches!(w, "eval-error" | "no-output" | "several-outputs") { w } else { "wrong-value" };
                            fail(
                                rep,
                                format!("expression:{what}:path-with-{}", key_feat(doc)),
                                json!({"offset": o, "class": cname, "difference": w, "expr": r.expression, "got": vals.iter().map(|v| v.to_json()).collect::<Vec<_>>()}),
                            )
                        }
                    }
                }
            }
        });
        if !ok {
            continue;
        }
        // at_offset / at_position through the generic evaluator (cursor route)
        let (l, c) = oracle::line_col_crlf(t, o);
        for (name, prog) in [("at_offset", format!("at_offset({o})")), ("at_position", format!("at_position({l}; {c})"))] {
            guard(rep, &format!("PANIC:{name}"), size, || json!({"doc": doc.id, "offset": o, "program": prog}), |rep| {
                rep.trans(1);
                match jq::parse(&prog) {
                    Err(e) => fail(rep, format!("{name}:parse-error"), json!({"program": prog, "error": format!("{e:?}")})),
                    Ok(e) => {
                        let q = eval_generic::eval_with_cursor(&e, root);
                        let is_err = q.is_error();
                        let vals = q.collect_owned();
                        match one_value(&vals, is_err).and_then(|v| ov_eq(v, &own_val)) {
                            Ok(()) => {}
                            Err(w) => fail(rep, format!("{name}:{}:{}", if matches!(w, "eval-error" | "no-output" | "several-outputs") { w } else { "wrong-value" }, cname.split(':').next().unwrap()), json!({"offset": o, "class": cname, "position_in_token": pos, "difference": w, "program": prog, "got": vals.iter().map(|v| v.to_json()).collect::<Vec<_>>()})),
                        }
                    }
                }
            });
        }
    }
}

static SKIPPED_DUP: std::sync::atomic::AtomicU64 = std::sync::atomic::AtomicU64::new(0);

fn explore(ctx: &Ctx, rep: &mut Report) {
    for a in [Alphabet::full(), Alphabet::reduced(), Alphabet::tiny()] {
        a.selftest();
    }
    let f = |d: &Doc, rep: &mut Report| {
        if d.has_dup_keys() {
            SKIPPED_DUP.fetch_add(1, std::sync::atomic::Ordering::Relaxed);
            return;
        }
        check_doc(d, rep);
    };
    let all: &[&str] = &WS;
    let two: &[&str] = &["", " \n\t\r "];
    let plans: Vec<(&str, Alphabet, usize, &[&str], bool)> = if ctx.quick() {
        vec![
            ("J3/full/uniform-ws", Alphabet::full(), 3, two, false),
            ("J3/reduced/single-gap-ws", Alphabet::reduced(), 3, &[][..], true),
            ("J4/reduced/uniform-ws", Alphabet::reduced(), 4, &["\r\n"][..], false),
        ]
    } else {
        vec![
            ("J3/full/uniform-ws", Alphabet::full(), 3, all, false),
            ("J3/reduced/single-gap-ws", Alphabet::reduced(), 3, &[][..], true),
            ("J4/reduced/uniform-ws", Alphabet::reduced(), 4, all, false),
            ("J5/tiny/uniform-ws", Alphabet::tiny(), 5, &[""][..], false),
        ]
    };
    for (name, alpha, n, uni, single) in plans {
        if ctx.over_budget() {
            rep.caps.push(format!("wall cap reached before sub-space {name}"));
            continue;
        }
        let sp = Space::new(alpha, n);
        let r = jgen::for_each_doc(ctx, name, &sp, uni, single, 11, &f);
        rep.merge(r);
    }
    // nesting / long arrays: paths with many components
    let fams: Vec<(&str, usize)> = vec![("nest-mix", 3), ("nest-mix", 12), ("nest-mix", 40), ("nest-obj", 30), ("nest-arr", 70), ("array", 130), ("array-obj", 40), ("sparse", 3), ("siblings", 700), ("siblings", 1200), ("siblings-arr", 1200), ("siblings", if ctx.quick() { 1300 } else { 2500 })];
    let wss = [Ws::Uniform(String::new()), Ws::Uniform(" \n\t\r ".into())];
    let mut r = par_range_in(ctx, "families", (fams.len() * wss.len()) as u64, 1, |i, rep| {
        let (name, p) = fams[i as usize / wss.len()];
        let d = jgen::family(name, p, &wss[i as usize % wss.len()]);
        if d.has_dup_keys() {
            panic!("family {name}({p}) has duplicate keys; choose another for C28");
        }
        rep.input();
        check_doc(&d, rep);
    });
    r.mark_exhaustive("families", "deep / wide duplicate-free documents, incl. three big sibling containers (parent several directory blocks below the node); every byte offset");
    rep.merge(r);
    rep.sample(|| {
        let sp = Space::new(Alphabet::full(), 3);
        let d = sp.doc(sp.total() - 400, &Ws::Uniform(" ".into()));
        let ix = JsonIndex::build(&d.text);
        let exprs: Vec<Value> = (0..d.text.len()).map(|o| json!(locate_offset(&ix, &d.text, o))).collect();
        json!({"doc": show(&d.text), "expression_per_offset": exprs})
    });
    rep.extra.insert("documents_skipped_for_duplicate_keys".into(), json!(SKIPPED_DUP.load(std::sync::atomic::Ordering::Relaxed)));
    rep.extra.insert("offset_classes".into(), json!(["inside scalar token", "inside key token", "on container opening bracket", "elsewhere (crash containment only)"]));
}

fn replay(case: &Value, rep: &mut Report) {
    let d = jgen::regen(&case["doc"]);
    check_doc(&d, rep);
}

fn main() {
    drive("C28", explore, replay);
}
