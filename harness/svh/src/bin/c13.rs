//! C13 — UTF-8 validation matches the Unicode definition on every engine.
//!
//! S4/S5: every byte string up to a length bound over a 22-byte class alphabet
//! (Table 3-7 range ends, C0/C1, F5, F8, FF, ASCII, LF) is placed at offsets
//! around the 8-byte (broadword) and 32-byte (AVX2) block boundaries after
//! ASCII / multi-byte / newline-rich filler and before 0/1/3/35 bytes of
//! suffix; `validate_utf8`, `_simd`, `_scalar`, `_broadword` are run on each and
//! compared with a Table 3-7 automaton written here (self-tested against
//! `core::str::from_utf8`: verdict and valid_up_to on every input).
//!
//! Offset clause (DESIGN §3-C13 interpretation): `input[..v]` is the longest
//! well-formed prefix; the reported offset lies in the first ill-formed
//! sequence, which starts at v: `offset == v` for InvalidLeadByte / Overlong /
//! Surrogate / OutOfRange / Truncated, and for InvalidContinuationByte it is
//! the first byte after v that is not a continuation byte. Kind by the enum's
//! documented precedence (lead byte class, truncation, continuation bytes,
//! code point bounds). Line/column: LF-only rule of the module.
use engine::*;
use serde_json::{json, Value};
use succinctly::text::utf8::{
    decode_code_point, encode_code_point, sequence_length, validate_utf8, validate_utf8_broadword, validate_utf8_scalar, validate_utf8_simd, Utf8Error,
    Utf8ErrorKind,
};

const ALPHA: [u8; 22] = [
    0x41, 0x0a, 0x80, 0x8f, 0x90, 0x9f, 0xa0, 0xbf, 0xc0, 0xc1, 0xc2, 0xdf, 0xe0, 0xe1, 0xed, 0xef, 0xf0, 0xf1, 0xf4, 0xf5, 0xf8, 0xff,
];

/// Unicode 15 Table 3-7: length of the well-formed sequence starting at `p`, if any.
fn wf_len(t: &[u8], p: usize) -> Option<usize> {
    let b0 = t[p];
    // (second byte range), number of further plain continuation bytes
    let (lo, hi, more): (u8, u8, usize) = match b0 {
        0x00..=0x7f => return Some(1),
        0xc2..=0xdf => (0x80, 0xbf, 0),
        0xe0 => (0xa0, 0xbf, 1),
        0xe1..=0xec => (0x80, 0xbf, 1),
        0xed => (0x80, 0x9f, 1),
        0xee..=0xef => (0x80, 0xbf, 1),
        0xf0 => (0x90, 0xbf, 2),
        0xf1..=0xf3 => (0x80, 0xbf, 2),
        0xf4 => (0x80, 0x8f, 2),
        _ => return None,
    };
    let b1 = *t.get(p + 1)?;
    if b1 < lo || b1 > hi {
        return None;
    }
    for k in 0..more {
        let b = *t.get(p + 2 + k)?;
        if !(0x80..=0xbf).contains(&b) {
            return None;
        }
    }
    Some(2 + more)
}

/// (valid?, v = length of the longest well-formed prefix)
fn table37(t: &[u8]) -> (bool, usize) {
    let mut p = 0;
    while p < t.len() {
        match wf_len(t, p) {
            Some(l) => p += l,
            None => return (false, p),
        }
    }
    (true, p)
}

/// Classification of the first ill-formed sequence (starting at v) by the
/// documented precedence. Returns (offset, kind).
fn classify(t: &[u8], v: usize) -> (usize, Utf8ErrorKind) {
    let b = t[v];
    let l = match b {
        0x80..=0xbf | 0xf8..=0xff => return (v, Utf8ErrorKind::InvalidLeadByte),
        0xc0..=0xdf => 2,
        0xe0..=0xef => 3,
        0xf0..=0xf7 => 4,
        _ => panic!("oracle: ASCII byte cannot start an ill-formed sequence"),
    };
    if v + l > t.len() {
        return (v, Utf8ErrorKind::TruncatedSequence);
    }
    for k in 1..l {
        if t[v + k] & 0xc0 != 0x80 {
            return (v + k, Utf8ErrorKind::InvalidContinuationByte);
        }
    }
    let mut cp: u32 = match l {
        2 => (b & 0x1f) as u32,
        3 => (b & 0x0f) as u32,
        _ => (b & 0x07) as u32,
    };
    for k in 1..l {
        cp = (cp << 6) | (t[v + k] & 0x3f) as u32;
    }
    let min = [0u32, 0, 0x80, 0x800, 0x10000][l];
    if cp < min {
        (v, Utf8ErrorKind::OverlongEncoding)
    } else if (0xd800..=0xdfff).contains(&cp) {
        (v, Utf8ErrorKind::SurrogateCodepoint)
    } else if cp > 0x10ffff {
        (v, Utf8ErrorKind::OutOfRangeCodepoint)
    } else {
        panic!("oracle: Table 3-7 says ill-formed at {v} but the sequence decodes to a scalar value: {:02x?}", &t[v..v + l]);
    }
}

fn lf_line_col(t: &[u8], off: usize) -> (usize, usize) {
    let mut line = 1;
    let mut ls = 0;
    for (i, &b) in t[..off].iter().enumerate() {
        if b == b'\n' {
            line += 1;
            ls = i + 1;
        }
    }
    (line, off - ls + 1)
}

fn kind_name(k: Utf8ErrorKind) -> &'static str {
    match k {
        Utf8ErrorKind::InvalidLeadByte => "InvalidLeadByte",
        Utf8ErrorKind::InvalidContinuationByte => "InvalidContinuationByte",
        Utf8ErrorKind::OverlongEncoding => "OverlongEncoding",
        Utf8ErrorKind::SurrogateCodepoint => "SurrogateCodepoint",
        Utf8ErrorKind::OutOfRangeCodepoint => "OutOfRangeCodepoint",
        Utf8ErrorKind::TruncatedSequence => "TruncatedSequence",
    }
}

type Engine = (&'static str, fn(&[u8]) -> Result<(), Utf8Error>);
const ENGINES: [Engine; 4] =
    [("scalar", validate_utf8_scalar), ("simd", validate_utf8_simd), ("broadword", validate_utf8_broadword), ("dispatch", validate_utf8)];

/// Check one complete input on all engines. `wlen` = window length (orders examples).
fn check_input(t: &[u8], wlen: usize, rep: &mut Report) {
    let (valid, v) = table37(t);
    // oracle self-test against an independent second source (machinery error on disagreement)
    match core::str::from_utf8(t) {
        Ok(_) => assert!(valid, "ORACLE SELF-TEST: Table 3-7 automaton rejects what core::str accepts: {}", hex(t)),
        Err(e) => assert!(!valid && e.valid_up_to() == v, "ORACLE SELF-TEST: Table 3-7 automaton disagrees with core::str on {} (v={v}, std={})", hex(t), e.valid_up_to()),
    }
    let exp = if valid { None } else { Some(classify(t, v)) };
    let size = wlen * 1000 + t.len();
    let case = |engine: &str| json!({"kind":"validate","input":hex(t),"engine":engine});
    let mut results: Vec<Result<(), Utf8Error>> = Vec::with_capacity(4);
    // (engine, problem class, extra detail) — identical problems on all four engines are one root cause
    // (the accept scans delegate diagnosis to the scalar validator) and are reported once as `all-engines`.
    let mut problems: Vec<(&'static str, String, Value)> = Vec::new();
    for (name, f) in ENGINES {
        rep.trans(1);
        let r = match catch(|| f(t)) {
            Ok(r) => r,
            Err(m) => {
                problems.push((name, "panic".into(), json!({"panic": m})));
                continue;
            }
        };
        match (&r, &exp) {
            (Ok(()), None) => {}
            (Ok(()), Some((_, k))) => problems.push((name, format!("verdict:accepts-ill-formed:{}", kind_name(*k)), json!({}))),
            (Err(e), None) => problems.push((name, format!("verdict:rejects-well-formed:{}", kind_name(e.kind)), json!({}))),
            (Err(e), Some((off, k))) => {
                rep.evals(3);
                // end of the first ill-formed sequence: an error reported at or beyond it means the engine let that sequence pass
                let seq_end = match t[v] {
                    0xc0..=0xdf => v + 2,
                    0xe0..=0xef => v + 3,
                    0xf0..=0xf7 => v + 4,
                    _ => v + 1,
                }
                .min(t.len());
                if e.offset >= seq_end && e.offset > *off {
                    problems.push((name, format!("verdict:accepts-ill-formed:{}", kind_name(*k)), json!({"later_error": format!("{e:?}")})));
                } else if e.kind != *k {
                    problems.push((name, format!("kind:expected-{}-got-{}", kind_name(*k), kind_name(e.kind)), json!({})));
                } else if e.offset != *off {
                    let rel = if e.offset < v { "before-valid-prefix-end" } else if e.offset < *off { "early" } else { "late" };
                    problems.push((name, format!("offset:{}:{rel}", kind_name(*k)), json!({"got_offset": e.offset, "expected_offset": off, "valid_prefix": v})));
                } else {
                    let (l, c) = lf_line_col(t, e.offset);
                    if (e.line, e.column) != (l, c) {
                        let w = if e.line != l { "line" } else { "column" };
                        problems.push((name, format!("linecol:wrong-{w}"), json!({"got": [e.line, e.column], "expected": [l, c]})));
                    }
                }
            }
        }
        results.push(r);
    }
    if problems.len() == 4 && problems.iter().all(|p| p.1 == problems[0].1) {
        let (_, p, extra) = &problems[0];
        rep.fail(&format!("{p}:all-engines"), size, || {
            let mut c = case("scalar");
            c["detail"] = extra.clone();
            c
        });
    } else {
        for (name, p, extra) in &problems {
            rep.fail(&format!("{p}:{name}"), size, || {
                let mut c = case(name);
                c["detail"] = extra.clone();
                c
            });
        }
    }
    // all engines must report the identical Utf8Error
    if results.len() == 4 {
        rep.evals(3);
        for i in 1..4 {
            if results[i] != results[0] {
                rep.fail(&format!("engines-differ:{}-vs-scalar", ENGINES[i].0), size, || {
                    json!({"kind":"validate","input":hex(t),"engine":ENGINES[i].0,"scalar":format!("{:?}",results[0]),"other":format!("{:?}",results[i])})
                });
            }
        }
    }
}

fn filler(kind: usize, p: usize) -> Vec<u8> {
    let mut t = Vec::with_capacity(p);
    match kind {
        0 => t.resize(p, b'a'),
        1 => {
            // 2-byte characters; an odd remainder is filled with one 3-byte character + ... or LF
            while t.len() + 2 <= p {
                t.extend_from_slice("é".as_bytes());
            }
            while t.len() < p {
                t.push(b'\n');
            }
        }
        2 => {
            // newline-rich: LF next to 0x01 / 0x0b / CR (borrow-propagation traps of SWAR zero-byte tests)
            const PAT: [u8; 9] = [0x0a, 0x01, 0x0a, 0x0b, 0x61, 0x0a, 0x0a, 0x09, 0x0d];
            for i in 0..p {
                t.push(PAT[i % 9]);
            }
        }
        3 => {
            // 4-byte and 3-byte characters ending exactly at p
            let mut rest = p;
            while rest >= 4 && rest != 6 && rest != 5 {
                t.extend_from_slice("😀".as_bytes());
                rest -= 4;
            }
            while rest >= 3 {
                t.extend_from_slice("€".as_bytes());
                rest -= 3;
            }
            while rest >= 2 {
                t.extend_from_slice("é".as_bytes());
                rest -= 2;
            }
            if rest == 1 {
                t.push(b'a');
            }
        }
        _ => unreachable!(),
    }
    assert_eq!(t.len(), p);
    t
}

fn windows_checks(ctx: &Ctx, rep: &mut Report) {
    let alpha: Vec<&[u8]> = ALPHA.iter().map(std::slice::from_ref).collect();
    let full_len = ctx.pick(3u32, 4u32);
    let offsets: Vec<usize> = vec![0, 1, 5, 7, 8, 9, 15, 16, 17, 24, 29, 30, 31, 32, 33, 40, 61, 62, 63, 64, 65, 96];
    let suffixes = [0usize, 1, 3, 35];
    let off2 = offsets.clone();
    let r = par_strings(ctx, "windows/full-placement", &alpha, full_len, |w, _idx, rep| {
        rep.distinct(&(w, table37(w)));
        let mut t = Vec::with_capacity(160);
        for &p in &off2 {
            for fk in 0..4 {
                for &sfx in &suffixes {
                    t.clear();
                    t.extend_from_slice(&filler(fk, p));
                    t.extend_from_slice(w);
                    t.resize(t.len() + sfx, b'z');
                    rep.input();
                    check_input(&t, w.len(), rep);
                }
            }
        }
    });
    rep.merge(r);
    // one symbol longer, reduced placement: block-boundary offsets only, ASCII filler, two suffixes
    let deep = full_len + 1;
    let a = ALPHA.len() as u64;
    let n = a.pow(deep);
    let red_offsets = [0usize, 5, 28, 29, 30, 31, 60];
    let r = par_range_in(ctx, "windows/reduced-placement", n, 2048, |i, rep| {
        let mut w = Vec::with_capacity(deep as usize);
        let mut x = i;
        for _ in 0..deep {
            w.push(ALPHA[(x % a) as usize]);
            x /= a;
        }
        w.reverse();
        let mut t = Vec::with_capacity(80);
        for &p in &red_offsets {
            for sfx in [0usize, 3] {
                t.clear();
                t.resize(p, b'a');
                t.extend_from_slice(&w);
                t.resize(t.len() + sfx, b'z');
                rep.input();
                check_input(&t, w.len(), rep);
            }
        }
    });
    rep.merge(r);
    rep.mark_exhaustive("windows/reduced-placement", &format!("all {n} strings of length {deep} over the 22-byte alphabet x offsets {red_offsets:?} x suffix {{0,3}}"));
    rep.extra.insert("window_alphabet_hex".into(), json!(ALPHA.iter().map(|b| format!("{b:02x}")).collect::<Vec<_>>()));
    rep.extra.insert("placement_offsets".into(), json!(offsets));
    rep.extra.insert("fillers".into(), json!(["ASCII a", "2-byte é (+LF pad)", "LF/01/0b/CR pattern", "4/3/2-byte characters ending at the window"]));
    rep.extra.insert("suffix_lengths".into(), json!(suffixes));
    // every byte value at every offset of a 70-byte ASCII / multi-byte carrier (single-byte perturbation)
    let r = par_range_in(ctx, "single-byte-perturbation", 256, 1, |b, rep| {
        for (ci, carrier) in [vec![b'a'; 70], "é".repeat(35).into_bytes(), "€😀".repeat(10).into_bytes()].iter().enumerate() {
            for p in 0..carrier.len() {
                let mut t = carrier.clone();
                t[p] = b as u8;
                rep.input();
                check_input(&t, 100 + ci, rep);
            }
        }
    });
    rep.merge(r);
    rep.mark_exhaustive("single-byte-perturbation", "every byte value at every position of three 70-byte carriers (ASCII, 2-byte, 3+4-byte characters)");
}

fn my_encode(cp: u32) -> Option<Vec<u8>> {
    if (0xd800..=0xdfff).contains(&cp) || cp > 0x10ffff {
        return None;
    }
    Some(if cp < 0x80 {
        vec![cp as u8]
    } else if cp < 0x800 {
        vec![0xc0 | (cp >> 6) as u8, 0x80 | (cp & 0x3f) as u8]
    } else if cp < 0x10000 {
        vec![0xe0 | (cp >> 12) as u8, 0x80 | ((cp >> 6) & 0x3f) as u8, 0x80 | (cp & 0x3f) as u8]
    } else {
        vec![0xf0 | (cp >> 18) as u8, 0x80 | ((cp >> 12) & 0x3f) as u8, 0x80 | ((cp >> 6) & 0x3f) as u8, 0x80 | (cp & 0x3f) as u8]
    })
}

fn codepoint_check(cp: u32, rep: &mut Report) {
    let exp = my_encode(cp);
    if let Some(e) = &exp {
        // second source for the encoder
        let c = char::from_u32(cp).expect("scalar value");
        let mut buf = [0u8; 4];
        assert_eq!(c.encode_utf8(&mut buf).as_bytes(), &e[..], "ORACLE SELF-TEST: encoder");
    }
    rep.trans(1);
    let got = catch(|| encode_code_point(cp));
    let class = if (0xd800..=0xdfff).contains(&cp) { "surrogate" } else if cp > 0x10ffff { "above-10FFFF" } else { "scalar-value" };
    let size = cp as usize;
    match (&got, &exp) {
        (Ok(None), None) => {}
        (Ok(Some((b, l))), Some(e)) if *l == e.len() && b[..*l] == e[..] => {
            // decode it back, alone and followed by other bytes
            for tail in [&b""[..], b"a", &[0x80], &[0xff]] {
                let mut t = e.clone();
                t.extend_from_slice(tail);
                rep.trans(1);
                let d = catch(|| decode_code_point(&t));
                if d != Ok(Some((cp, e.len()))) {
                    rep.fail(&format!("decode_code_point:round-trip:{}-byte", e.len()), size, || json!({"kind":"codepoint","cp":cp,"bytes":hex(&t),"got":format!("{d:?}")}));
                }
            }
            // every proper prefix is not a code point
            for k in 0..e.len() {
                rep.trans(1);
                let d = catch(|| decode_code_point(&e[..k]));
                if d != Ok(None) {
                    rep.fail("decode_code_point:accepts-truncated", size, || json!({"kind":"codepoint","cp":cp,"bytes":hex(&e[..k]),"got":format!("{d:?}")}));
                }
            }
        }
        _ => rep.fail(&format!("encode_code_point:{class}"), size, || json!({"kind":"codepoint","cp":cp,"got":format!("{got:?}"),"exp":format!("{exp:?}")})),
    }
}

fn decode_check(t: &[u8], rep: &mut Report) {
    rep.trans(1);
    let exp = if t.is_empty() {
        None
    } else {
        wf_len(t, 0).map(|l| {
            let s = core::str::from_utf8(&t[..l]).expect("ORACLE SELF-TEST: Table 3-7 sequence is valid for core::str");
            (s.chars().next().unwrap() as u32, l)
        })
    };
    let got = catch(|| decode_code_point(t));
    if got != Ok(exp) {
        let w = match (&got, &exp) {
            (Err(_), _) => "panic".to_string(),
            (Ok(Some(_)), None) => format!("accepts-ill-formed:{}", if t.is_empty() { "empty".into() } else { kind_name(classify_first(t)).to_string() }),
            (Ok(None), Some(_)) => "rejects-well-formed".into(),
            _ => "wrong-value".into(),
        };
        rep.fail(&format!("decode_code_point:{w}"), t.len(), || json!({"kind":"decode","bytes":hex(t),"got":format!("{got:?}"),"exp":format!("{exp:?}")}));
    }
}

fn classify_first(t: &[u8]) -> Utf8ErrorKind {
    classify(t, 0).1
}

fn codepoints(ctx: &Ctx, rep: &mut Report) {
    let mut cps: Vec<u32> = (0..=0x11_0400u32).collect();
    cps.extend([0x1f_ffff, 0x20_0000, 0x3ff_ffff, 0x7fff_ffff, 0x8000_0000, u32::MAX - 1, u32::MAX]);
    let r = par_range_in(ctx, "codepoints/encode+decode", cps.len() as u64, 8192, |i, rep| {
        rep.input();
        codepoint_check(cps[i as usize], rep);
    });
    rep.merge(r);
    rep.mark_exhaustive("codepoints/encode+decode", "every u32 in 0..=0x110400 (all scalar values, all surrogates, 1024 values above U+10FFFF) plus 7 large values; encode compared with own encoder, decode of the encoding alone / with 3 kinds of trailing byte / every proper prefix");
    // decode on raw byte strings: all 1- and 2-byte strings, 3-byte strings with constrained-range leads, 4-byte families
    let r = par_range_in(ctx, "decode/raw", 256 + 65536, 4096, |i, rep| {
        rep.input();
        if i < 256 {
            decode_check(&[i as u8], rep);
            rep.trans(1);
            let b = i as u8;
            let exp = match b {
                0x00..=0x7f => 1,
                0xc0..=0xdf => 2,
                0xe0..=0xef => 3,
                0xf0..=0xf7 => 4,
                _ => 0,
            };
            if sequence_length(b) != exp {
                rep.fail("sequence_length", b as usize, || json!({"kind":"seqlen","byte":b}));
            }
        } else {
            let x = (i - 256) as usize;
            let (b0, b1) = ((x >> 8) as u8, (x & 0xff) as u8);
            decode_check(&[b0, b1], rep);
            if matches!(b0, 0xe0 | 0xe1 | 0xec | 0xed | 0xee | 0xef) {
                for b2 in 0..=255u8 {
                    decode_check(&[b0, b1, b2], rep);
                }
            }
            if matches!(b0, 0xf0 | 0xf1 | 0xf3 | 0xf4 | 0xf5 | 0xf7) {
                for b2 in [0x00u8, 0x7f, 0x80, 0xbf, 0xc0, 0xff] {
                    decode_check(&[b0, b1, b2], rep);
                    for b3 in [0x00u8, 0x7f, 0x80, 0xbf, 0xc0, 0xff] {
                        decode_check(&[b0, b1, b2, b3], rep);
                        decode_check(&[b0, b1, b2, b3, 0x80], rep);
                    }
                }
            }
        }
    });
    rep.merge(r);
    rep.mark_exhaustive("decode/raw", "decode_code_point on the empty string, all 1- and 2-byte strings, all 3-byte strings with lead E0/E1/EC/ED/EE/EF, 4/5-byte strings with lead F0/F1/F3/F4/F5/F7 x any 2nd byte x 6 class representatives; sequence_length on all 256 bytes");
    rep.space("decode/raw");
    decode_check(&[], rep);
}

fn explore(ctx: &Ctx, rep: &mut Report) {
    if std::arch::is_x86_feature_detected!("avx2") {
        rep.path("validate_utf8_simd: AVX2 accept scan + scalar diagnosis");
    } else {
        rep.caps.push("host has no AVX2: validate_utf8_simd ran its scalar fallback only".into());
    }
    rep.path("validate_utf8_scalar");
    rep.path("validate_utf8_broadword: SWAR accept scan + scalar diagnosis");
    rep.path("validate_utf8 (dispatch)");
    windows_checks(ctx, rep);
    codepoints(ctx, rep);
    let mut n = 0;
    for w in [&[0xed, 0xa0, 0x80][..], &[0xc2, 0x41], &[0xf4, 0x90, 0x80, 0x80], &[0xe0, 0x80], "é\n".as_bytes()] {
        let (valid, v) = table37(w);
        let exp = if valid { json!("well-formed") } else { let (o, k) = classify(w, v); json!({"valid_prefix":v,"offset":o,"kind":kind_name(k)}) };
        rep.sample(|| json!({"input":hex(w),"expected":exp,"scalar":format!("{:?}", validate_utf8_scalar(w))}));
        n += 1;
    }
    let _ = n;
}

fn replay(case: &Value, rep: &mut Report) {
    match case["kind"].as_str().unwrap_or("validate") {
        "codepoint" => codepoint_check(case["cp"].as_u64().unwrap() as u32, rep),
        "decode" => decode_check(&unhex(case["bytes"].as_str().unwrap()), rep),
        "seqlen" => {
            let b = case["byte"].as_u64().unwrap() as u8;
            let exp = match b {
                0x00..=0x7f => 1,
                0xc0..=0xdf => 2,
                0xe0..=0xef => 3,
                0xf0..=0xf7 => 4,
                _ => 0,
            };
            if sequence_length(b) != exp {
                rep.fail("sequence_length", b as usize, || json!({"kind":"seqlen","byte":b}));
            }
        }
        _ => {
            let t = unhex(case["input"].as_str().unwrap());
            check_input(&t, 0, rep);
        }
    }
}

fn main() {
    drive("C13", explore, replay);
}
