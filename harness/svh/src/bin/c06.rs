//! C06 — JSON index navigation reproduces every valid document's value.
//!
//! S2: every document of J(n) (all trees with <= n value nodes over the leaf /
//! key alphabets) under every whitespace placement (a pattern in all gaps; a
//! pattern in exactly one gap, for every gap). S3: scale families (nesting to
//! 33 000, arrays to 100 000 elements, 1 MiB string, > 1 MiB document,
//! sparse-IB arrays). For every document the whole token tree is walked through
//! the public API and every node compared with the generator's record: start,
//! byte range, raw bytes, kind, decoded string, number spelling / f64 / i64,
//! parent, first child, next sibling, children(), fields in source order with
//! duplicates, find / find_cursor (= last occurrence by decoded name),
//! elements via uncons / iterator / cursor_iter / get(i) / get_fast(i), and the
//! value materialised from the root.
use engine::*;
use serde_json::{json, Value};
use std::sync::atomic::{AtomicU64, Ordering};
use succinctly::json::JsonIndex;

#[path = "../jgen.rs"]
mod jgen;
#[path = "../jnav.rs"]
mod jnav;

use jgen::{Alphabet, Doc, Space, Ws, WS};

fn check_doc(doc: &Doc, rep: &mut Report, big: bool) {
    let size = doc.text.len();
    let mut empties = (0u64, 0u64);
    guard(rep, "PANIC:nav", size, || doc.case(), |rep| {
        let ix = JsonIndex::build(&doc.text);
        let mut ck = jnav::Ck::new(rep, doc, "", big);
        jnav::check_nav(&mut ck, &ix);
        empties = (ck.empty_containers, ck.empty_containers_is_container_true);
    });
    EMPTY_SEEN.fetch_add(empties.0, Ordering::Relaxed);
    EMPTY_TRUE.fetch_add(empties.1, Ordering::Relaxed);
}

static EMPTY_SEEN: AtomicU64 = AtomicU64::new(0);
static EMPTY_TRUE: AtomicU64 = AtomicU64::new(0);

fn explore(ctx: &Ctx, rep: &mut Report) {
    for a in [Alphabet::full(), Alphabet::reduced(), Alphabet::tiny()] {
        a.selftest();
    }
    let f = |d: &Doc, rep: &mut Report| check_doc(d, rep, false);
    // (name, alphabet, max nodes, uniform patterns, single-gap variants)
    let all: &[&str] = &WS;
    let two: &[&str] = &["", " \n\t\r "];
    let plans: Vec<(&str, Alphabet, usize, &[&str], bool)> = if ctx.quick() {
        vec![
            ("J3/full/uniform-ws", Alphabet::full(), 3, all, false),
            ("J3/reduced/single-gap-ws", Alphabet::reduced(), 3, &[][..], true),
            ("J4/reduced/uniform-ws", Alphabet::reduced(), 4, two, false),
            ("J5/tiny/uniform-ws", Alphabet::tiny(), 5, &[""][..], false),
        ]
    } else {
        vec![
            ("J3/full/uniform-ws", Alphabet::full(), 3, all, false),
            ("J3/full/single-gap-ws", Alphabet::full(), 3, &[][..], true),
            ("J4/full/uniform-ws", Alphabet::full(), 4, &[" "][..], false),
            ("J4/reduced/uniform-ws", Alphabet::reduced(), 4, all, false),
            ("J4/reduced/single-gap-ws", Alphabet::reduced(), 4, &[][..], true),
            ("J5/reduced/uniform-ws", Alphabet::reduced(), 5, two, false),
            ("J6/tiny/uniform-ws", Alphabet::tiny(), 6, &[""][..], false),
        ]
    };
    let mut sums = serde_json::Map::new();
    for (name, alpha, n, uni, single) in plans {
        if ctx.over_budget() {
            rep.caps.push(format!("wall cap reached before sub-space {name}"));
            continue;
        }
        let sp = Space::new(alpha, n);
        sums.insert(name.to_string(), json!({"trees": sp.total(), "by_nodes": &sp.counts[1..]}));
        let r = jgen::for_each_doc(ctx, name, &sp, uni, single, 11, &f);
        rep.merge(r);
    }
    // scale families
    let fams = jgen::family_list(ctx.quick());
    let wss = [Ws::Uniform(String::new()), Ws::Uniform(" \n\t\r ".into())];
    let r = par_range_in(ctx, "families", (fams.len() * wss.len()) as u64, 1, |i, rep| {
        let (name, p) = fams[i as usize / wss.len()];
        let d = jgen::family(name, p, &wss[i as usize % wss.len()]);
        if d.nodes.iter().map(|n| n.depth).max().unwrap_or(0) < 100 && d.text.len() < 300_000 {
            jgen::selftest_doc(&d);
        }
        rep.input();
        rep.distinct(&("family", name, p));
        check_doc(&d, rep, true);
        if i % 37 == 0 {
            rep.sample(|| json!({"family": name, "param": p, "bytes": d.text.len(), "nodes": d.nodes.len()}));
        }
    });
    let mut r = r;
    r.mark_exhaustive("families", "every (family, parameter) of the list x 2 whitespace patterns; all nodes walked; get/get_fast at boundary indices for arrays > 40 elements");
    rep.merge(r);
    // Exhaustive \uXXXX decoding: every BMP code unit that is not a surrogate (both hex cases), and every
    // high surrogate x a set of low surrogates covering both ends and the middle of the range — i.e. every
    // plane and every carry of the pair arithmetic — as a root string, as the tail of a longer string, and as an
    // object key. The decoded text must be exactly that scalar value.
    let lows: [u32; 6] = [0xDC00, 0xDC01, 0xDD55, 0xDEAA, 0xDFFE, 0xDFFF];
    let n_bmp = 0x10000u64;
    let n_pairs = 0x400u64 * lows.len() as u64;
    let mut r = par_range_in(ctx, "escape-decoding", n_bmp + n_pairs, 2048, |i, rep| {
        let (esc_lo, esc_up, expect): (String, String, char) = if i < n_bmp {
            let u = i as u32;
            if (0xD800..=0xDFFF).contains(&u) {
                return;
            }
            (format!("\\u{u:04x}"), format!("\\u{u:04X}"), char::from_u32(u).unwrap())
        } else {
            let j = i - n_bmp;
            let hi = 0xD800 + (j / lows.len() as u64) as u32;
            let lo = lows[(j % lows.len() as u64) as usize];
            let cp = 0x10000 + ((hi - 0xD800) << 10) + (lo - 0xDC00);
            (format!("\\u{hi:04x}\\u{lo:04x}"), format!("\\u{hi:04X}\\u{lo:04X}"), char::from_u32(cp).unwrap())
        };
        rep.input();
        rep.distinct(&("escape", expect));
        for esc in [&esc_lo, &esc_up] {
            for (doc, want, how) in [
                (format!("\"{esc}\""), expect.to_string(), "root"),
                (format!("[\"ab{esc}c\"]"), format!("ab{expect}c"), "inner"),
                (format!("{{\"{esc}\":1}}"), expect.to_string(), "key"),
            ] {
                rep.trans(1);
                let text = doc.as_bytes();
                let got = decode_escape_doc(text, how);
                let ok = matches!(&got, Ok(Some(g)) if *g == want);
                if !ok {
                    let plane = (expect as u32) >> 16;
                    let class = if plane == 0 { "bmp".to_string() } else if plane % 2 == 0 { "even-plane-pair".to_string() } else { "odd-plane-pair".to_string() };
                    rep.fail(&format!("escape-decoding:{how}:{class}"), doc.len(), || json!({"kind":"escape","doc":doc,"expected":want,"got":format!("{got:?}")}));
                }
            }
        }
    });
    r.mark_exhaustive("escape-decoding", "every non-surrogate BMP \\uXXXX (lower and upper hex) and every high surrogate x 6 low surrogates, as root string, inside a longer string, and as an object key");
    rep.merge(r);
    rep.sample(|| {
        let sp = Space::new(Alphabet::full(), 3);
        let d = sp.doc(sp.total() - 5, &Ws::Uniform(" ".into()));
        json!({"doc": show(&d.text), "nodes": d.nodes.iter().map(|n| json!([n.kind.name(), n.start, n.end])).collect::<Vec<_>>()})
    });
    rep.extra.insert("spaces".into(), Value::Object(sums));
    rep.extra.insert("families".into(), json!(fams.iter().map(|(n, p)| format!("{n}({p})")).collect::<Vec<_>>()));
    rep.extra.insert("whitespace_patterns".into(), json!(WS));
    rep.extra.insert("empty_containers_seen".into(), json!(EMPTY_SEEN.load(Ordering::Relaxed)));
    rep.extra.insert("empty_containers_with_is_container_true".into(), json!(EMPTY_TRUE.load(Ordering::Relaxed)));
    rep.extra.insert(
        "is_container_note".into(),
        json!("JsonCursor::is_container() is documented as 'has children in the BP tree'; empty [] / {} answer false. Not part of the C06 statement; counted in empty_containers_*"),
    );
}

fn decode_escape_doc(text: &[u8], how: &str) -> Result<Option<String>, String> {
    use succinctly::json::{JsonIndex, StandardJson};
    catch(|| {
        let ix = JsonIndex::build(text);
        let root = ix.root(text);
        match how {
            "root" => match root.value() {
                StandardJson::String(s) => s.as_str().ok().map(|c| c.to_string()),
                _ => None,
            },
            "inner" => root.first_child().and_then(|c| match c.value() {
                StandardJson::String(s) => s.as_str().ok().map(|c| c.to_string()),
                _ => None,
            }),
            _ => match root.value() {
                StandardJson::Object(mut f) => f.next().and_then(|fld| match fld.key() {
                    StandardJson::String(s) => s.as_str().ok().map(|c| c.to_string()),
                    _ => None,
                }),
                _ => None,
            },
        }
    })
}

fn replay(case: &Value, rep: &mut Report) {
    if case["kind"] == "escape" {
        let doc = case["doc"].as_str().unwrap();
        let how = if doc.starts_with('"') { "root" } else if doc.starts_with('[') { "inner" } else { "key" };
        let got = decode_escape_doc(doc.as_bytes(), how);
        let want = case["expected"].as_str().unwrap();
        if !matches!(&got, Ok(Some(g)) if g == want) {
            let cp = want.chars().find(|c| !c.is_ascii()).map(|c| c as u32).unwrap_or(0);
            let plane = cp >> 16;
            let class = if plane == 0 { "bmp" } else if plane % 2 == 0 { "even-plane-pair" } else { "odd-plane-pair" };
            rep.fail(&format!("escape-decoding:{how}:{class}"), doc.len(), || json!({"kind":"escape","doc":doc,"expected":want,"got":format!("{got:?}")}));
        }
        return;
    }
    let d = jgen::regen(&case["doc"]);
    let big = case["doc"].get("family").is_some();
    // run on a big stack (deep families)
    let r = std::thread::scope(|s| {
        std::thread::Builder::new()
            .stack_size(256 << 20)
            .spawn_scoped(s, || {
                let mut r = Report::new();
                check_doc(&d, &mut r, big);
                r
            })
            .unwrap()
            .join()
            .unwrap()
    });
    rep.merge(r);
}

fn main() {
    drive("C06", explore, replay);
}
