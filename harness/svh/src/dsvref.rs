//! Independent DSV reference model shared by the C20 and C21 explorers.
//!
//! Nothing here calls succinctly. The model is a 2-state DFA over four byte
//! classes (quote / delimiter / record separator / other):
//!
//!   state Out --quote--> In      state In --quote--> Out
//!   a delimiter or separator byte is a *marker* iff the state is Out;
//!   a separator byte is additionally a *newline* iff the state is Out.
//!
//! Rows and fields are then derived from the marker positions, byte by byte.
#![allow(dead_code)]

#[derive(Clone, Copy, Debug, PartialEq, Eq, Hash)]
pub struct Cfg {
    pub delimiter: u8,
    pub quote: u8,
    pub newline: u8,
}

impl Cfg {
    pub const CSV: Cfg = Cfg { delimiter: b',', quote: b'"', newline: b'\n' };
    pub fn distinct(&self) -> bool {
        self.delimiter != self.quote && self.delimiter != self.newline && self.quote != self.newline
    }
    /// A byte that is none of the three special bytes, preferring `pref`.
    pub fn other(&self, pref: u8) -> u8 {
        let mut b = pref;
        while b == self.delimiter || b == self.quote || b == self.newline {
            b = b.wrapping_add(1);
        }
        b
    }
    pub fn to_json(&self) -> serde_json::Value {
        serde_json::json!([self.delimiter, self.quote, self.newline])
    }
    pub fn from_json(v: &serde_json::Value) -> Cfg {
        let a = v.as_array().expect("cfg is [d,q,n]");
        Cfg { delimiter: a[0].as_u64().unwrap() as u8, quote: a[1].as_u64().unwrap() as u8, newline: a[2].as_u64().unwrap() as u8 }
    }
}

/// Result of the reference scan.
#[derive(Clone, Debug, Default, PartialEq, Eq)]
pub struct Scan {
    /// positions of delimiters and separators outside quotes, ascending
    pub markers: Vec<usize>,
    /// positions of separators outside quotes, ascending
    pub newlines: Vec<usize>,
    /// DFA state after the last byte (true = inside a quoted region)
    pub end_in_quote: bool,
}

/// Byte-at-a-time run of the 2-state DFA.
pub fn scan(t: &[u8], c: &Cfg) -> Scan {
    let mut s = Scan::default();
    let mut inq = false;
    for (i, &b) in t.iter().enumerate() {
        if b == c.quote {
            inq = !inq;
            continue;
        }
        if inq {
            continue;
        }
        if b == c.delimiter {
            s.markers.push(i);
        } else if b == c.newline {
            s.markers.push(i);
            s.newlines.push(i);
        }
    }
    s.end_in_quote = inq;
    s
}

/// rank(i) = number of positions `< i`, for a sorted position list.
pub fn rank(pos: &[usize], i: usize) -> usize {
    let mut n = 0;
    for &p in pos {
        if p < i {
            n += 1;
        } else {
            break;
        }
    }
    n
}

/// Prefix table: `tab[i]` = number of positions `< i` for `i in 0..=len`.
pub fn rank_table(pos: &[usize], len: usize) -> Vec<usize> {
    let mut tab = vec![0usize; len + 1];
    let mut k = 0;
    for i in 0..=len {
        while k < pos.len() && pos[k] < i {
            k += 1;
        }
        tab[i] = k;
    }
    tab
}

pub type Rows = Vec<Vec<Vec<u8>>>;

/// Quote-aware splitter: rows at separators outside quotes (a separator that is
/// the last byte does not start another row; the empty text has no rows), then
/// fields at delimiters outside quotes, every field as its raw bytes.
pub fn split(t: &[u8], c: &Cfg) -> Rows {
    let mut rows: Rows = Vec::new();
    if t.is_empty() {
        return rows;
    }
    let mut inq = false;
    let mut row: Vec<Vec<u8>> = Vec::new();
    let mut field: Vec<u8> = Vec::new();
    let mut open = true; // a row is in progress (bytes or not)
    for (i, &b) in t.iter().enumerate() {
        open = true;
        if b == c.quote {
            inq = !inq;
            field.push(b);
            continue;
        }
        if !inq && b == c.delimiter {
            row.push(std::mem::take(&mut field));
            continue;
        }
        if !inq && b == c.newline {
            row.push(std::mem::take(&mut field));
            rows.push(std::mem::take(&mut row));
            open = false;
            let _ = i;
            continue;
        }
        field.push(b);
    }
    if open {
        row.push(field);
        rows.push(row);
    }
    rows
}

/// Self-test of the two reference functions against each other and against
/// hand-written expectations. Panics (machinery error) on failure.
pub fn selftest() {
    let c = Cfg::CSV;
    let f = |s: &str| -> Vec<Vec<String>> { split(s.as_bytes(), &c).into_iter().map(|r| r.into_iter().map(|x| String::from_utf8(x).unwrap()).collect()).collect() };
    assert_eq!(f(""), Vec::<Vec<String>>::new());
    assert_eq!(f("a"), vec![vec!["a"]]);
    assert_eq!(f("a\n"), vec![vec!["a"]]);
    assert_eq!(f("a,"), vec![vec!["a", ""]]);
    assert_eq!(f("a,\n"), vec![vec!["a", ""]]);
    assert_eq!(f(","), vec![vec!["", ""]]);
    assert_eq!(f("\n"), vec![vec![""]]);
    assert_eq!(f("\n\n"), vec![vec![""], vec![""]]);
    assert_eq!(f("a\n\nb"), vec![vec!["a"], vec![""], vec!["b"]]);
    assert_eq!(f("\"a,\n\",b\nc"), vec![vec!["\"a,\n\"", "b"], vec!["c"]]);
    assert_eq!(f("\"a,\nb"), vec![vec!["\"a,\nb"]]);
    assert_eq!(f("a\"\"b,c"), vec![vec!["a\"\"b", "c"]]);
    let s = scan(b"a,\"b,\n\"\n,\"", &c);
    assert_eq!(s.markers, vec![1, 7, 8]);
    assert_eq!(s.newlines, vec![7]);
    assert!(s.end_in_quote);
    assert_eq!(rank(&s.markers, 0), 0);
    assert_eq!(rank(&s.markers, 2), 1);
    assert_eq!(rank(&s.markers, 100), 3);
    assert_eq!(rank_table(&s.markers, 10), (0..=10).map(|i| rank(&s.markers, i)).collect::<Vec<_>>());
    // consistency: joining the split rows with the structural bytes gives the text back
    for t in [&b"a,b\nc"[..], b"\"x\ny\",\n,\n", b",,\n\n\"", b"q\"\"\",\n"] {
        let rows = split(t, &c);
        let mut back = Vec::new();
        for (ri, r) in rows.iter().enumerate() {
            for (fi, fld) in r.iter().enumerate() {
                if fi > 0 {
                    back.push(c.delimiter);
                }
                back.extend_from_slice(fld);
            }
            if ri + 1 < rows.len() || t.last() == Some(&c.newline) && !scan(&t[..t.len() - 1], &c).end_in_quote {
                back.push(c.newline);
            }
        }
        assert_eq!(back, t, "split/join self-test");
    }
}
