//! YAML presentation generator shared by C14 / C16 / C18 / C29 (owner: the YAML checks).
//!
//! `tree -> every presentation of a stated space`, each presentation carrying the byte
//! span, path and style of every scalar / key token (C29 needs the spans, C14/C18 use the
//! styles to compute failure signatures).
//!
//! The emitter is deliberately conservative: a form is produced only where YAML 1.2 gives
//! it the intended value without any doubt (plain scalars only under a whitelist predicate
//! matched over the WHOLE string; folded scalars only in the forms whose folding is
//! certain; keep-chomped block scalars never followed by blank/comment lines; explicit
//! indentation indicators only below a block collection). Nothing in this file calls the
//! code under test. `py/c14.py` cross-checks a slice of the emitted documents against
//! PyYAML (with YAML 1.2 core-schema resolvers) when PyYAML is importable.
#![allow(dead_code)]

use serde_json::{Map, Value};

// ------------------------------------------------------------------ tree --

#[derive(Clone, Debug, PartialEq, Eq, Hash)]
pub enum Node {
    Null,
    Bool(bool),
    Int(i64),
    Str(String),
    Seq(Vec<Node>),
    Map(Vec<(String, Node)>),
    /// `&name inner`
    Anchor(&'static str, Box<Node>),
    /// `*name`; carries a copy of the anchored node (its value)
    Alias(&'static str, Box<Node>),
}

impl Node {
    pub fn s(x: &str) -> Node {
        Node::Str(x.to_string())
    }
    pub fn to_json(&self) -> Value {
        match self {
            Node::Null => Value::Null,
            Node::Bool(b) => Value::Bool(*b),
            Node::Int(i) => Value::from(*i),
            Node::Str(s) => Value::String(s.clone()),
            Node::Seq(v) => Value::Array(v.iter().map(|n| n.to_json()).collect()),
            Node::Map(v) => {
                let mut m = Map::new();
                for (k, n) in v {
                    m.insert(k.clone(), n.to_json());
                }
                Value::Object(m)
            }
            Node::Anchor(_, n) | Node::Alias(_, n) => n.to_json(),
        }
    }
    pub fn is_scalar(&self) -> bool {
        matches!(self, Node::Null | Node::Bool(_) | Node::Int(_) | Node::Str(_))
    }
    pub fn is_nonempty_coll(&self) -> bool {
        match self {
            Node::Seq(v) => !v.is_empty(),
            Node::Map(v) => !v.is_empty(),
            _ => false,
        }
    }
    pub fn nodes(&self) -> usize {
        match self {
            Node::Seq(v) => 1 + v.iter().map(|n| n.nodes()).sum::<usize>(),
            Node::Map(v) => 1 + v.iter().map(|(_, n)| n.nodes()).sum::<usize>(),
            Node::Anchor(_, n) => n.nodes(),
            _ => 1,
        }
    }
}

#[derive(Clone, Debug, PartialEq, Eq, Hash)]
pub enum Step {
    Key(String),
    Idx(usize),
}

/// Style of a token (for signatures / evidence).
#[derive(Clone, Copy, Debug, PartialEq, Eq, Hash)]
pub enum Style {
    Plain,
    Single,
    Double,
    SingleMultiline,
    DoubleMultiline,
    Literal,
    Folded,
    IntDec,
    IntHex,
    IntOct,
    Bool,
    NullWord,
    NullEmpty,
}

impl Style {
    pub fn name(self) -> &'static str {
        match self {
            Style::Plain => "plain",
            Style::Single => "single",
            Style::Double => "double",
            Style::SingleMultiline => "single-multiline",
            Style::DoubleMultiline => "double-multiline",
            Style::Literal => "literal",
            Style::Folded => "folded",
            Style::IntDec => "int-dec",
            Style::IntHex => "int-hex",
            Style::IntOct => "int-oct",
            Style::Bool => "bool",
            Style::NullWord => "null-word",
            Style::NullEmpty => "null-empty",
        }
    }
}

#[derive(Clone, Debug)]
pub struct Mark {
    pub start: u32,
    pub end: u32,
    /// index into `Gen::paths`
    pub pid: u16,
    pub key: bool,
    pub style: Style,
}

#[derive(Clone, Debug, Default)]
pub struct Frag {
    pub s: String,
    pub marks: Vec<Mark>,
    /// last line belongs to a block scalar (no blank / comment line may follow safely)
    pub bs: bool,
}

impl Frag {
    fn new() -> Frag {
        Frag::default()
    }
    fn lit(s: &str) -> Frag {
        Frag { s: s.to_string(), marks: Vec::new(), bs: false }
    }
    fn push(&mut self, s: &str) {
        self.s.push_str(s);
    }
    fn push_frag(&mut self, f: &Frag) {
        let off = self.s.len() as u32;
        self.s.push_str(&f.s);
        for m in &f.marks {
            let mut m = m.clone();
            m.start += off;
            m.end += off;
            self.marks.push(m);
        }
        self.bs = f.bs;
    }
}

// --------------------------------------------------------------- options --

#[derive(Clone, Copy, Debug, PartialEq, Eq)]
pub enum Forms {
    /// every scalar / key / flow style valid for the value there
    Full,
    /// double-quoted + (plain if allowed else single if allowed); literal block scalars; first key form
    Reduced,
}

#[derive(Clone, Copy, Debug)]
pub struct Opts {
    /// indentation step of nested block collections / block scalar content (1, 2, 4)
    pub step: usize,
    pub forms: Forms,
    /// trailing ` # c` comments wherever a comment is certain to be legal
    pub comments: bool,
    /// between entries of a block collection: 0 nothing, 1 blank line, 2 comment line at the
    /// entries' indent, 3 comment line at column 0 (never after a block scalar)
    pub inter: u8,
    pub marks: bool,
}

impl Opts {
    pub fn full() -> Opts {
        Opts { step: 2, forms: Forms::Full, comments: false, inter: 0, marks: true }
    }
    pub fn reduced() -> Opts {
        Opts { step: 2, forms: Forms::Reduced, comments: false, inter: 0, marks: true }
    }
}

#[derive(Clone, Copy, PartialEq, Eq)]
enum Pos {
    /// value after `key:` in a block mapping
    BlockVal,
    /// item after `-`
    SeqItem,
    /// inside a flow collection
    Flow,
    /// whole document / after `: ` of an explicit key
    Doc,
}

pub struct Gen {
    pub o: Opts,
    pub paths: Vec<Vec<Step>>,
}

// ---------------------------------------------------- scalar predicates --

const RESERVED: [&str; 11] = ["null", "Null", "NULL", "~", "true", "True", "TRUE", "false", "False", "FALSE", ""];

fn safe_nonascii(c: char) -> bool {
    let o = c as u32;
    (0xa1..=0x2027).contains(&o) || (0x2030..=0xd7ff).contains(&o) || o >= 0x10000
}

fn word_start(c: char) -> bool {
    c.is_ascii_alphabetic() || c == '_' || safe_nonascii(c)
}

fn word_char(c: char) -> bool {
    c.is_ascii_alphanumeric() || c == '_' || safe_nonascii(c)
}

/// Whole-string predicate: words of letters/digits/underscore/safe non-ASCII, first
/// character not a digit, single spaces between words, not a reserved word of the core schema.
fn plain_words(s: &str) -> bool {
    if RESERVED.contains(&s) {
        return false;
    }
    let cs: Vec<char> = s.chars().collect();
    if cs.is_empty() || !word_start(cs[0]) {
        return false;
    }
    let mut prev_space = false;
    for (i, &c) in cs.iter().enumerate() {
        if c == ' ' {
            if prev_space || i == 0 || i + 1 == cs.len() {
                return false;
            }
            prev_space = true;
        } else {
            if !word_char(c) {
                return false;
            }
            prev_space = false;
        }
    }
    true
}

/// Strings outside the word grammar that are nevertheless certain plain scalars:
/// (string, allowed in flow context too).
const PLAIN_EXTRA: [(&str, bool); 3] = [("a,b", false), ("C:\\x", false), ("a'b\"c", true)];

fn plain_ok(s: &str, flow: bool) -> bool {
    if plain_words(s) {
        return true;
    }
    PLAIN_EXTRA.iter().any(|&(p, fl)| p == s && (fl || !flow))
}

fn printable(c: char) -> bool {
    let o = c as u32;
    (0x20..0x7f).contains(&o) || o == 9 || (0xa0..0x2028).contains(&o) || (0x2030..0xd800).contains(&o) || ((0xe000..0xfffe).contains(&o) && o != 0xfeff) || o >= 0x10000
}

fn sq_ok(s: &str) -> bool {
    s.chars().all(|c| printable(c) && c != '\t')
}

fn dq(s: &str, esc_nonascii: bool) -> String {
    let mut out = String::from("\"");
    for c in s.chars() {
        let o = c as u32;
        match c {
            '"' => out.push_str("\\\""),
            '\\' => out.push_str("\\\\"),
            '\n' => out.push_str("\\n"),
            '\r' => out.push_str("\\r"),
            '\t' => out.push_str("\\t"),
            '\0' => out.push_str("\\0"),
            _ if o < 0x20 || o == 0x7f => out.push_str(&format!("\\x{o:02x}")),
            _ if o == 0x85 || o == 0x2028 || o == 0x2029 || o == 0xfeff || (0x80..0xa0).contains(&o) => out.push_str(&format!("\\u{o:04x}")),
            _ if esc_nonascii && o > 0x7f => {
                if o < 0x10000 {
                    out.push_str(&format!("\\u{o:04x}"))
                } else {
                    out.push_str(&format!("\\U{o:08x}"))
                }
            }
            _ => out.push(c),
        }
    }
    out.push('"');
    out
}

fn sq(s: &str) -> String {
    format!("'{}'", s.replace('\'', "''"))
}

/// `a b` shapes: split points where a quoted / folded scalar may be broken across two lines
/// with certainty: a single space with a non-space on both sides; only the first is used.
fn split_point(s: &str) -> Option<(String, String)> {
    if s.contains('\n') || s.contains('\t') {
        return None;
    }
    let i = s.find(' ')?;
    let (a, b) = (&s[..i], &s[i + 1..]);
    if a.is_empty() || b.is_empty() || b.starts_with(' ') || a.ends_with(' ') {
        return None;
    }
    Some((a.to_string(), b.to_string()))
}

impl Gen {
    pub fn new(o: Opts) -> Gen {
        Gen { o, paths: Vec::new() }
    }

    fn pid(&mut self, path: &[Step]) -> u16 {
        if let Some(i) = self.paths.iter().position(|p| p == path) {
            return i as u16;
        }
        self.paths.push(path.to_vec());
        (self.paths.len() - 1) as u16
    }

    fn tok(&mut self, text: &str, path: &[Step], key: bool, style: Style) -> Frag {
        let mut f = Frag::lit(text);
        if self.o.marks {
            let pid = self.pid(path);
            f.marks.push(Mark { start: 0, end: text.len() as u32, pid, key, style });
        }
        f
    }

    fn full(&self) -> bool {
        self.o.forms == Forms::Full
    }

    /// One-line spellings of a scalar: (text, style).
    fn inline_scalar_forms(&self, node: &Node, ctx: Pos) -> Vec<(String, Style)> {
        let flow = ctx == Pos::Flow;
        match node {
            Node::Int(i) => {
                let mut f = vec![(i.to_string(), Style::IntDec)];
                if *i >= 0 && self.full() {
                    f.push((format!("0x{i:x}"), Style::IntHex));
                    let up = format!("0x{i:X}");
                    if up != f[1].0 {
                        f.push((up, Style::IntHex));
                    }
                    f.push((format!("0o{i:o}"), Style::IntOct));
                }
                f
            }
            Node::Bool(b) => {
                let all: [&str; 3] = if *b { ["true", "True", "TRUE"] } else { ["false", "False", "FALSE"] };
                let n = if self.full() { 3 } else { 1 };
                all[..n].iter().map(|s| (s.to_string(), Style::Bool)).collect()
            }
            Node::Null => {
                let mut f: Vec<(String, Style)> = if self.full() {
                    ["null", "Null", "NULL", "~"].iter().map(|s| (s.to_string(), Style::NullWord)).collect()
                } else {
                    vec![("null".to_string(), Style::NullWord)]
                };
                if ctx == Pos::BlockVal || ctx == Pos::SeqItem {
                    f.push((String::new(), Style::NullEmpty));
                }
                f
            }
            Node::Str(s) => {
                let mut f = vec![(dq(s, false), Style::Double)];
                if self.full() {
                    if s.chars().any(|c| c as u32 > 0x7f) {
                        f.push((dq(s, true), Style::Double));
                    }
                    if sq_ok(s) {
                        f.push((sq(s), Style::Single));
                    }
                    if plain_ok(s, flow) {
                        f.push((s.clone(), Style::Plain));
                    }
                } else if plain_ok(s, flow) {
                    f.push((s.clone(), Style::Plain));
                } else if sq_ok(s) {
                    f.push((sq(s), Style::Single));
                }
                f
            }
            _ => unreachable!("inline_scalar_forms on a collection"),
        }
    }

    /// Block scalar spellings: (header without indentation indicator placeholder resolved, content lines, style).
    /// `allow_indicator` is false at document level (the meaning of an explicit indentation
    /// indicator there differs between the specification and libyaml).
    fn block_scalar_forms(&self, s: &str, allow_indicator: bool) -> Vec<(String, Vec<String>, Style)> {
        let mut out = Vec::new();
        if s.is_empty() || s.chars().any(|c| (!printable(c) || c == '\t') && c != '\n') {
            return out;
        }
        let body = s.trim_end_matches('\n');
        let trail = s.len() - body.len();
        if body.is_empty() {
            return out;
        }
        let lines: Vec<&str> = body.split('\n').collect();
        if lines.iter().any(|l| !l.is_empty() && l.trim_matches(' ').is_empty()) {
            return out;
        }
        let first = lines.iter().find(|l| !l.is_empty()).unwrap();
        let needs_ind = first.starts_with(' ') || lines[0].is_empty();
        if needs_ind && !allow_indicator {
            return out;
        }
        let ind = if needs_ind { self.o.step.to_string() } else { String::new() };
        let mut content: Vec<String> = lines.iter().map(|l| l.to_string()).collect();
        for _ in 1..trail {
            content.push(String::new());
        }
        // literal: strip for no trailing newline, clip or keep for exactly one, keep for more
        let chomps: &[&str] = match trail {
            0 => &["-"],
            1 => {
                if self.full() {
                    &["", "+"]
                } else {
                    &[""]
                }
            }
            _ => &["+"],
        };
        for c in chomps {
            out.push((format!("|{ind}{c}"), content.clone(), Style::Literal));
            if self.full() && !ind.is_empty() {
                // chomping indicator before the indentation indicator is equally legal
                if !c.is_empty() {
                    out.push((format!("|{c}{ind}"), content.clone(), Style::Literal));
                }
            }
        }
        // folded: only the forms whose folding is certain
        if self.full() && !needs_ind && trail <= 1 && lines.iter().all(|l| !l.is_empty() && !l.starts_with(' ') && !l.ends_with(' ')) {
            let hdr = if trail == 0 { ">-" } else { ">" };
            if lines.len() == 1 {
                out.push((hdr.to_string(), vec![lines[0].to_string()], Style::Folded));
                if let Some((a, b)) = split_point(lines[0]) {
                    out.push((hdr.to_string(), vec![a, b], Style::Folded));
                }
            } else {
                let mut fl = Vec::new();
                for (i, l) in lines.iter().enumerate() {
                    if i > 0 {
                        fl.push(String::new());
                    }
                    fl.push(l.to_string());
                }
                out.push((hdr.to_string(), fl, Style::Folded));
            }
        }
        out
    }

    /// Quoted scalar broken across two lines at a single space (folds back to that space).
    fn quoted_split_forms(&self, s: &str, cont_indent: usize) -> Vec<(String, Style)> {
        let mut out = Vec::new();
        if !self.full() {
            return out;
        }
        if let Some((a, b)) = split_point(s) {
            let pad = " ".repeat(cont_indent);
            let d = dq(s, false);
            // split the *spelled* string at the same space: only when spelling does not move it
            let da = dq(&a, false);
            let db = dq(&b, false);
            let _ = d;
            out.push((format!("{}\n{pad}{}", &da[..da.len() - 1], &db[1..]), Style::DoubleMultiline));
            if sq_ok(s) {
                let sa = sq(&a);
                let sb = sq(&b);
                out.push((format!("{}\n{pad}{}", &sa[..sa.len() - 1], &sb[1..]), Style::SingleMultiline));
            }
        }
        out
    }

    fn key_forms(&mut self, k: &str, flow: bool, path: &[Step]) -> Vec<Frag> {
        let mut f = vec![(dq(k, false), Style::Double)];
        if self.full() {
            if sq_ok(k) {
                f.push((sq(k), Style::Single));
            }
            if plain_ok(k, flow) {
                f.push((k.to_string(), Style::Plain));
            }
        } else if plain_ok(k, flow) {
            f = vec![(k.to_string(), Style::Plain)];
        }
        f.into_iter().map(|(t, st)| self.tok(&t, path, true, st)).collect()
    }

    // ------------------------------------------------------------- flow --

    /// Flow renderings of a node. `multi`: Some(pad) breaks the OUTERMOST collection over
    /// lines (items on their own lines indented by pad, closing bracket too).
    pub fn flow(&mut self, node: &Node, path: &mut Vec<Step>, multi: Option<usize>) -> Vec<Frag> {
        match node {
            Node::Map(es) if es.is_empty() => vec![Frag::lit("{}")],
            Node::Seq(es) if es.is_empty() => vec![Frag::lit("[]")],
            Node::Map(es) => {
                let mut loose: Vec<Vec<Frag>> = Vec::new();
                let mut tight: Vec<Vec<Frag>> = Vec::new();
                for (k, v) in es {
                    path.push(Step::Key(k.clone()));
                    let kfs = self.key_forms(k, true, path);
                    let vfs = self.flow(v, path, None);
                    path.pop();
                    let mut lo = Vec::new();
                    let mut ti = Vec::new();
                    for kf in &kfs {
                        let quoted = kf.s.starts_with('"') || kf.s.starts_with('\'');
                        for vf in &vfs {
                            let mut f = kf.clone();
                            f.push(": ");
                            f.push_frag(vf);
                            lo.push(f);
                            if quoted {
                                let mut f = kf.clone();
                                f.push(":");
                                f.push_frag(vf);
                                ti.push(f);
                            }
                        }
                    }
                    loose.push(lo);
                    tight.push(ti);
                }
                self.flow_join(&loose, &tight, '{', '}', multi)
            }
            Node::Seq(es) => {
                let mut parts: Vec<Vec<Frag>> = Vec::new();
                for (i, v) in es.iter().enumerate() {
                    path.push(Step::Idx(i));
                    parts.push(self.flow(v, path, None));
                    path.pop();
                }
                let tight = parts.clone();
                self.flow_join(&parts, &tight, '[', ']', multi)
            }
            Node::Anchor(name, inner) => {
                let fs = self.flow(inner, path, None);
                fs.into_iter()
                    .map(|f| {
                        let mut g = Frag::lit(&format!("&{name} "));
                        g.push_frag(&f);
                        g
                    })
                    .collect()
            }
            Node::Alias(name, _) => vec![Frag::lit(&format!("*{name}"))],
            _ => {
                let forms = self.inline_scalar_forms(node, Pos::Flow);
                forms.into_iter().map(|(t, st)| self.tok(&t, path, false, st)).collect()
            }
        }
    }

    fn flow_join(&self, loose: &[Vec<Frag>], tight: &[Vec<Frag>], open: char, close: char, multi: Option<usize>) -> Vec<Frag> {
        let mut out = Vec::new();
        match multi {
            None => {
                for combo in product(loose) {
                    out.push(join(&combo, ", ", &open.to_string(), &close.to_string()));
                }
                if self.full() && tight.iter().all(|t| !t.is_empty()) {
                    for combo in product(tight) {
                        out.push(join(&combo, ",", &open.to_string(), &close.to_string()));
                    }
                }
            }
            Some(pad) => {
                let p = " ".repeat(pad);
                for combo in product(loose) {
                    out.push(join(&combo, &format!(",\n{p}"), &format!("{open}\n{p}"), &format!("\n{p}{close}")));
                }
            }
        }
        out
    }

    // ------------------------------------------------------------ block --

    /// Renderings of `node` as a block node whose lines are indented by `indent`.
    pub fn block(&mut self, node: &Node, indent: usize, path: &mut Vec<Step>) -> Vec<Frag> {
        let pad = " ".repeat(indent);
        match node {
            Node::Map(es) if !es.is_empty() => {
                let mut per: Vec<Vec<Frag>> = Vec::new();
                for (k, v) in es {
                    path.push(Step::Key(k.clone()));
                    let mut opts = Vec::new();
                    let kfs = self.key_forms(k, false, path);
                    let tails = self.value_tails(v, indent, false, path, true);
                    for kf in &kfs {
                        for t in &tails {
                            let mut f = Frag::lit(&pad);
                            f.push_frag(kf);
                            f.push(":");
                            f.push_frag(t);
                            opts.push(f);
                        }
                    }
                    // explicit key: `? key` / `: value` for scalars and flow collections
                    let ev: Vec<Frag> = match v {
                        Node::Anchor(..) | Node::Alias(..) => Vec::new(),
                        _ if v.is_scalar() => {
                            let forms = self.inline_scalar_forms(v, Pos::Doc);
                            forms.into_iter().map(|(t, st)| self.tok(&t, path, false, st)).collect()
                        }
                        _ => self.flow(v, path, None),
                    };
                    let nk = if self.full() { kfs.len() } else { 1 };
                    let nv = if self.full() { ev.len() } else { ev.len().min(1) };
                    for kf in &kfs[..nk] {
                        for vf in &ev[..nv] {
                            let mut f = Frag::lit(&pad);
                            f.push("? ");
                            f.push_frag(kf);
                            f.push("\n");
                            f.push(&pad);
                            f.push(": ");
                            f.push_frag(vf);
                            opts.push(f);
                        }
                    }
                    path.pop();
                    per.push(opts);
                }
                self.join_entries(&per, indent)
            }
            Node::Seq(es) if !es.is_empty() => {
                let mut per: Vec<Vec<Frag>> = Vec::new();
                for (i, v) in es.iter().enumerate() {
                    path.push(Step::Idx(i));
                    let tails = self.value_tails(v, indent, true, path, true);
                    let mut opts = Vec::new();
                    for t in &tails {
                        let mut f = Frag::lit(&pad);
                        f.push("-");
                        f.push_frag(t);
                        opts.push(f);
                    }
                    path.pop();
                    per.push(opts);
                }
                self.join_entries(&per, indent)
            }
            _ => {
                // scalars, empty collections, flow collections as the whole block node
                let mut out = Vec::new();
                let mut fl = self.flow_doc_forms(node, indent, path);
                for f in fl.drain(..) {
                    let mut g = Frag::lit(&pad);
                    g.push_frag(&f);
                    out.push(g);
                }
                out
            }
        }
    }

    /// Document-level (or stand-alone) forms of a scalar / flow node, un-padded: flow forms,
    /// multi-line flow, quoted multi-line, block scalars without indentation indicator.
    fn flow_doc_forms(&mut self, node: &Node, indent: usize, path: &mut Vec<Step>) -> Vec<Frag> {
        let mut out = self.flow(node, path, None);
        if self.full() && node.is_nonempty_coll() {
            out.extend(self.flow(node, path, Some(indent + self.o.step)));
        }
        if let Node::Str(s) = node {
            for (t, st) in self.quoted_split_forms(s, indent + self.o.step) {
                out.push(self.tok(&t, path, false, st));
            }
            for (hdr, lines, st) in self.block_scalar_forms(s, false) {
                out.push(self.block_scalar_frag(&hdr, &lines, indent + self.o.step, path, st, false));
            }
        }
        out
    }

    fn block_scalar_frag(&mut self, hdr: &str, lines: &[String], content_indent: usize, path: &[Step], st: Style, comment: bool) -> Frag {
        let pad = " ".repeat(content_indent);
        let mut t = String::from(hdr);
        if comment {
            t.push_str(" # c");
        }
        for l in lines {
            t.push('\n');
            if !l.is_empty() {
                t.push_str(&pad);
                t.push_str(l);
            }
        }
        let mut f = self.tok(&t, path, false, st);
        f.bs = true;
        f
    }

    fn join_entries(&self, per: &[Vec<Frag>], indent: usize) -> Vec<Frag> {
        let ins: Option<String> = match self.o.inter {
            1 => Some(String::new()),
            2 => Some(format!("{}# c", " ".repeat(indent))),
            3 => Some("# c".to_string()),
            _ => None,
        };
        let mut out = Vec::new();
        for combo in product(per) {
            let mut f = Frag::new();
            for (i, part) in combo.iter().enumerate() {
                if i > 0 {
                    let prev_bs = combo[i - 1].bs;
                    f.push("\n");
                    if let (Some(x), false) = (&ins, prev_bs) {
                        f.push(x);
                        f.push("\n");
                    }
                }
                f.push_frag(part);
            }
            out.push(f);
        }
        out
    }

    /// Renderings of a value following `key:` or `-`: text starts with " …", "" or "\n…".
    fn value_tails(&mut self, v: &Node, indent: usize, seqitem: bool, path: &mut Vec<Step>, allow_compact: bool) -> Vec<Frag> {
        let step = self.o.step;
        let comments = self.o.comments;
        let mut out: Vec<Frag> = Vec::new();
        let with_comment = |f: &Frag| {
            let mut g = f.clone();
            g.push(" # c");
            g
        };
        match v {
            Node::Anchor(name, inner) => {
                let tails = self.value_tails(inner, indent, seqitem, path, false);
                for t in tails {
                    let mut g = Frag::lit(&format!(" &{name}"));
                    g.push_frag(&t);
                    out.push(g);
                }
            }
            Node::Alias(name, _) => {
                let f = Frag::lit(&format!(" *{name}"));
                if comments {
                    out.push(with_comment(&f));
                }
                out.push(f);
            }
            _ if v.is_scalar() => {
                let ctx = if seqitem { Pos::SeqItem } else { Pos::BlockVal };
                for (t, st) in self.inline_scalar_forms(v, ctx) {
                    let tokf = self.tok(&t, path, false, st);
                    let mut f = Frag::lit(if t.is_empty() { "" } else { " " });
                    f.push_frag(&tokf);
                    if comments {
                        out.push(with_comment(&f));
                    }
                    out.push(f);
                }
                if let Node::Str(s) = v {
                    for (t, st) in self.quoted_split_forms(s, indent + step) {
                        let tokf = self.tok(&t, path, false, st);
                        let mut f = Frag::lit(" ");
                        f.push_frag(&tokf);
                        out.push(f);
                    }
                    for (hdr, lines, st) in self.block_scalar_forms(s, true) {
                        for c in [false, true] {
                            if c && !comments {
                                continue;
                            }
                            let b = self.block_scalar_frag(&hdr, &lines, indent + step, path, st, c);
                            let mut f = Frag::lit(" ");
                            f.push_frag(&b);
                            out.push(f);
                        }
                    }
                }
            }
            _ if !v.is_nonempty_coll() => {
                let f = Frag::lit(if matches!(v, Node::Map(_)) { " {}" } else { " []" });
                if comments {
                    out.push(with_comment(&f));
                }
                out.push(f);
            }
            _ => {
                // non-empty collection: flow forms on the same line, block forms on following lines
                let mut fl = self.flow(v, path, None);
                if self.full() {
                    fl.extend(self.flow(v, path, Some(indent + step)));
                }
                for f in &fl {
                    let mut g = Frag::lit(" ");
                    g.push_frag(f);
                    if comments && !f.s.contains('\n') {
                        out.push(with_comment(&g));
                    }
                    out.push(g);
                }
                let bl = self.block(v, indent + step, path);
                for r in &bl {
                    let mut g = Frag::lit("\n");
                    g.push_frag(r);
                    out.push(g);
                    if comments {
                        let mut g = Frag::lit(" # c\n");
                        g.push_frag(r);
                        out.push(g);
                    }
                    if seqitem && allow_compact && step >= 2 {
                        // compact: `- k: v` / `- - a` (first line of the nested block joined after the dash)
                        let strip = indent + step;
                        let lead = step - 1;
                        let mut g = Frag::lit(&" ".repeat(lead));
                        g.s.push_str(&r.s[strip..]);
                        for m in &r.marks {
                            let mut m = m.clone();
                            m.start = m.start - strip as u32 + lead as u32;
                            m.end = m.end - strip as u32 + lead as u32;
                            g.marks.push(m);
                        }
                        g.bs = r.bs;
                        out.push(g);
                    }
                }
                if !seqitem && allow_compact && matches!(v, Node::Seq(_)) {
                    // sequence under a key at the key's own indentation
                    let bl0 = self.block(v, indent, path);
                    for r in &bl0 {
                        let mut g = Frag::lit("\n");
                        g.push_frag(r);
                        out.push(g);
                    }
                }
            }
        }
        out
    }

    /// All presentations of a whole document body (no markers, '\n' breaks, no final newline).
    /// Second component: true when the body may follow `--- ` on the marker line.
    pub fn document(&mut self, node: &Node) -> Vec<(Frag, bool)> {
        let mut path = Vec::new();
        let inline_ok = !node.is_nonempty_coll();
        let mut out: Vec<(Frag, bool)> = self.block(node, 0, &mut path).into_iter().map(|f| (f, inline_ok)).collect();
        if node.is_nonempty_coll() {
            // flow rendering of the whole document
            for f in self.flow_doc_forms(node, 0, &mut path) {
                out.push((f, true));
            }
        }
        out
    }
}

fn product(per: &[Vec<Frag>]) -> Vec<Vec<&Frag>> {
    let mut out: Vec<Vec<&Frag>> = vec![Vec::new()];
    for opts in per {
        let mut nx = Vec::with_capacity(out.len() * opts.len());
        for c in &out {
            for o in opts {
                let mut d = c.clone();
                d.push(o);
                nx.push(d);
            }
        }
        out = nx;
    }
    out
}

fn join(parts: &[&Frag], sep: &str, open: &str, close: &str) -> Frag {
    let mut f = Frag::lit(open);
    for (i, p) in parts.iter().enumerate() {
        if i > 0 {
            f.push(sep);
        }
        f.push_frag(p);
    }
    f.push(close);
    f.bs = false;
    f
}

// ------------------------------------------------------ document assembly --

#[derive(Clone, Copy, Debug, PartialEq, Eq, Hash)]
pub enum Brk {
    Lf,
    CrLf,
    Cr,
}

impl Brk {
    pub const ALL: [Brk; 3] = [Brk::Lf, Brk::CrLf, Brk::Cr];
    pub fn name(self) -> &'static str {
        match self {
            Brk::Lf => "lf",
            Brk::CrLf => "crlf",
            Brk::Cr => "cr",
        }
    }
    pub fn bytes(self) -> &'static [u8] {
        match self {
            Brk::Lf => b"\n",
            Brk::CrLf => b"\r\n",
            Brk::Cr => b"\r",
        }
    }
}

#[derive(Clone, Copy, Debug, PartialEq, Eq, Hash)]
pub enum Wrap {
    /// bare document
    None,
    /// `---` line before
    Start,
    /// `---` before, `...` after
    StartEnd,
    /// comment line and blank line before
    Lead,
    /// `--- ` on the first line of a scalar / flow / block-scalar document
    Inline,
    /// `...` after only
    End,
}

impl Wrap {
    pub const ALL: [Wrap; 6] = [Wrap::None, Wrap::Start, Wrap::StartEnd, Wrap::Lead, Wrap::Inline, Wrap::End];
    pub fn name(self) -> &'static str {
        match self {
            Wrap::None => "none",
            Wrap::Start => "start",
            Wrap::StartEnd => "start-end",
            Wrap::Lead => "lead-comment",
            Wrap::Inline => "inline-start",
            Wrap::End => "end",
        }
    }
    fn parts(self) -> (&'static str, &'static str) {
        match self {
            Wrap::None => ("", ""),
            Wrap::Start => ("---\n", ""),
            Wrap::StartEnd => ("---\n", "...\n"),
            Wrap::Lead => ("# lead\n\n", ""),
            Wrap::Inline => ("--- ", ""),
            Wrap::End => ("", "...\n"),
        }
    }
}

#[derive(Clone, Debug)]
pub struct Doc {
    pub text: Vec<u8>,
    pub marks: Vec<Mark>,
}

/// Assemble a stream from document bodies: `(frag, wrap)` per document. A document after the
/// first always gets a `---` line (its own wrap decides only Inline / trailing `...`).
pub fn assemble(docs: &[(&Frag, Wrap)], brk: Brk) -> Doc {
    let mut s = String::new();
    let mut marks = Vec::new();
    for (i, (f, w)) in docs.iter().enumerate() {
        let (mut pre, post) = w.parts();
        if i > 0 && pre != "--- " {
            pre = "---\n";
        }
        s.push_str(pre);
        let off = s.len() as u32;
        s.push_str(&f.s);
        s.push('\n');
        for m in &f.marks {
            let mut m = m.clone();
            m.start += off;
            m.end += off;
            marks.push(m);
        }
        s.push_str(post);
    }
    convert(s, marks, brk)
}

/// Substitute the line break, shifting marks.
pub fn convert(s: String, mut marks: Vec<Mark>, brk: Brk) -> Doc {
    match brk {
        Brk::Lf => Doc { text: s.into_bytes(), marks },
        Brk::Cr => Doc { text: s.into_bytes().into_iter().map(|b| if b == b'\n' { b'\r' } else { b }).collect(), marks },
        Brk::CrLf => {
            let b = s.as_bytes();
            // prefix count of '\n'
            let mut pre = Vec::with_capacity(b.len() + 1);
            let mut c = 0u32;
            for &x in b {
                pre.push(c);
                if x == b'\n' {
                    c += 1;
                }
            }
            pre.push(c);
            for m in marks.iter_mut() {
                m.start += pre[m.start as usize];
                m.end += pre[m.end as usize];
            }
            let mut out = Vec::with_capacity(b.len() + c as usize);
            for &x in b {
                if x == b'\n' {
                    out.push(b'\r');
                }
                out.push(x);
            }
            Doc { text: out, marks }
        }
    }
}

// ------------------------------------------------------------- alphabets --

pub const STRS: [&str; 49] = [
    "a", "a b", "", " a", "a ", "a: b", "- a", "#a", "a #b", "true", "null", "~", "12", "0x1F", "1e3", "yes", "no", "é", "😀", "a\nb", "a\n", "a\n\n", "a\n b", " a\nb", "a\n\nb", "\ta",
    "x\u{1}y", "x\u{85}y", "x\u{2028}y", "'", "\"", "\\", "a'b\"c", "C:\\x", "*a", "&a", "!a", "[a]", "{a}", "a,b", "|", ">", "%a", "@a", "`a", "---", "...", "a b c", "x\ny\n",
];

pub const KEYS: [&str; 22] = [
    "a b", "", "true", "12", "a: b", "é", "- a", "#a", "'", "k\"", "*a", "? a", "a\nb", "a,b", "null",
    // keys whose double-quoted spelling ends in an escape right before the closing quote (`"\\"`, `"C:\\"`,
    // `"x\\\""`) or starts with one: a scanner that decides "escaped quote" by looking at the previous byte only
    // misreads where the key ends
    "\\", "C:\\", "x\\\"", "\"q",
    // plain keys of 31 / 32 / 63 characters: `key:` with the colon in the last lane of a 32-byte chunk
    "kkkkkkkkkkkkkkkkkkkkkkkkkkkkkkk", "kkkkkkkkkkkkkkkkkkkkkkkkkkkkkkkk", "kkkkkkkkkkkkkkkkkkkkkkkkkkkkkkkkkkkkkkkkkkkkkkkkkkkkkkkkkkkkkkk",
];

pub const KEY_NAMES: [&str; 5] = ["k", "j", "i", "m", "n"];

pub fn leaves_full() -> Vec<Node> {
    let mut v: Vec<Node> = STRS.iter().map(|s| Node::s(s)).collect();
    v.extend([Node::Int(0), Node::Int(7), Node::Int(-3), Node::Int(123456789), Node::Bool(true), Node::Bool(false), Node::Null]);
    v
}

/// The first `n` of a fixed priority order (used for the reduced alphabets of larger trees).
pub fn leaves_small(n: usize) -> Vec<Node> {
    let pri: Vec<Node> = vec![
        Node::s("a"),
        Node::Null,
        Node::s("a: b"),
        Node::Int(7),
        Node::s(" a"),
        Node::s("x\ny\n"),
        Node::Bool(true),
        Node::s("a b"),
        Node::s(""),
        Node::s("a\n\n"),
        Node::s("- a"),
        Node::s("é"),
        Node::s("#a"),
        Node::s("'"),
        Node::s("a\nb"),
        Node::s("\""),
        Node::s("null"),
        Node::s("12"),
        Node::Int(-3),
        Node::s("a,b"),
    ];
    pri.into_iter().take(n).collect()
}

/// All tree shapes with exactly `n` nodes (collections and leaves count 1 each; empty
/// collections are leaves of the shape), leaves drawn from `leaves`. Map keys are
/// KEY_NAMES by position.
pub fn trees_exact(n: usize, leaves: &[Node]) -> Vec<Node> {
    fn forests(m: usize, leaves: &[Node], memo: &mut Vec<Option<Vec<Vec<Node>>>>, tm: &mut Vec<Option<Vec<Node>>>) -> Vec<Vec<Node>> {
        if let Some(x) = &memo[m] {
            return x.clone();
        }
        let mut out: Vec<Vec<Node>> = Vec::new();
        if m == 0 {
            out.push(Vec::new());
        } else {
            for j in 1..=m {
                let firsts = trees(j, leaves, memo, tm);
                let rests = forests(m - j, leaves, memo, tm);
                for f in &firsts {
                    for r in &rests {
                        let mut v = vec![f.clone()];
                        v.extend(r.iter().cloned());
                        out.push(v);
                    }
                }
            }
        }
        memo[m] = Some(out.clone());
        out
    }
    fn trees(n: usize, leaves: &[Node], memo: &mut Vec<Option<Vec<Vec<Node>>>>, tm: &mut Vec<Option<Vec<Node>>>) -> Vec<Node> {
        if let Some(x) = &tm[n] {
            return x.clone();
        }
        let mut out = Vec::new();
        if n == 1 {
            out.extend(leaves.iter().cloned());
            out.push(Node::Seq(vec![]));
            out.push(Node::Map(vec![]));
        } else {
            for f in forests(n - 1, leaves, memo, tm) {
                if f.len() > KEY_NAMES.len() {
                    continue;
                }
                out.push(Node::Seq(f.clone()));
                out.push(Node::Map(f.into_iter().enumerate().map(|(i, c)| (KEY_NAMES[i].to_string(), c)).collect()));
            }
        }
        tm[n] = Some(out.clone());
        out
    }
    let mut memo = vec![None; n + 1];
    let mut tm = vec![None; n + 1];
    trees(n, leaves, &mut memo, &mut tm)
}

/// Trees with two equal subtrees, the first anchored and the second an alias.
pub fn anchor_trees(subs: &[Node]) -> Vec<Node> {
    let mut out = Vec::new();
    for x in subs {
        let a = || Node::Anchor("x", Box::new(x.clone()));
        let r = || Node::Alias("x", Box::new(x.clone()));
        out.push(Node::Seq(vec![a(), r()]));
        out.push(Node::Map(vec![("k".into(), a()), ("j".into(), r())]));
        out.push(Node::Seq(vec![a(), Node::Seq(vec![r()])]));
        out.push(Node::Map(vec![("k".into(), Node::Map(vec![("i".into(), a())])), ("j".into(), r())]));
        out.push(Node::Seq(vec![a(), r(), r()]));
        out.push(Node::Map(vec![("k".into(), a()), ("j".into(), Node::Seq(vec![r(), Node::s("a")]))]));
    }
    out
}

// ------------------------------------------------------------ comparison --

/// Order-sensitive structural equality; returns the path of the first difference.
pub fn first_diff(exp: &Value, got: &Value, path: &mut Vec<Step>) -> Option<Vec<Step>> {
    match (exp, got) {
        (Value::Object(a), Value::Object(b)) => {
            let ka: Vec<&String> = a.keys().collect();
            let kb: Vec<&String> = b.keys().collect();
            if ka != kb {
                return Some(path.clone());
            }
            for (k, va) in a {
                path.push(Step::Key(k.clone()));
                if let Some(d) = first_diff(va, &b[k], path) {
                    return Some(d);
                }
                path.pop();
            }
            None
        }
        (Value::Array(a), Value::Array(b)) => {
            if a.len() != b.len() {
                return Some(path.clone());
            }
            for (i, (x, y)) in a.iter().zip(b.iter()).enumerate() {
                path.push(Step::Idx(i));
                if let Some(d) = first_diff(x, y, path) {
                    return Some(d);
                }
                path.pop();
            }
            None
        }
        (Value::Number(x), Value::Number(y)) => {
            if x.to_string() == y.to_string() {
                None
            } else {
                Some(path.clone())
            }
        }
        _ => {
            if exp == got {
                None
            } else {
                Some(path.clone())
            }
        }
    }
}

pub fn at_path<'a>(v: &'a Value, path: &[Step]) -> Option<&'a Value> {
    let mut cur = v;
    for s in path {
        cur = match s {
            Step::Key(k) => cur.as_object()?.get(k)?,
            Step::Idx(i) => cur.as_array()?.get(*i)?,
        };
    }
    Some(cur)
}

pub fn kind_name(v: &Value) -> &'static str {
    match v {
        Value::Null => "null",
        Value::Bool(_) => "bool",
        Value::Number(_) => "number",
        Value::String(_) => "string",
        Value::Array(_) => "array",
        Value::Object(_) => "object",
    }
}

// ------------------------------------------------------------------ plan --
//
// The C14 presentation space, shared by C14 (loader), C18 (validator), C29 (locate) and
// C16 (a slice). Every sub-space is a finite product that is enumerated completely.

use engine::{par_range, Ctx, Report};

pub struct Space {
    pub name: &'static str,
    pub what: String,
    pub trees: Vec<Node>,
    pub opts: Vec<Opts>,
    pub wraps: Vec<Wrap>,
    pub brks: Vec<Brk>,
    /// 0 = single documents; k >= 2 = streams of exactly k documents drawn from `trees`
    pub stream: usize,
}

pub struct Case<'a> {
    pub space: &'a str,
    pub text: &'a [u8],
    pub marks: &'a [Mark],
    /// path table; every path starts with the document index
    pub paths: &'a [Vec<Step>],
    /// JSON of the stream as `to_json_document` must print it (document, or array of documents)
    pub expected: &'a Value,
    /// always the array of documents
    pub docs: &'a Value,
    pub brk: Brk,
    pub wrap: Wrap,
}

fn opt(step: usize, forms: Forms, comments: bool, inter: u8) -> Opts {
    Opts { step, forms, comments, inter, marks: true }
}

pub fn key_trees() -> Vec<Node> {
    let mut v: Vec<Node> = KEYS.iter().map(|k| Node::Map(vec![(k.to_string(), Node::Int(1))])).collect();
    v.extend(KEYS.iter().map(|k| Node::Map(vec![(k.to_string(), Node::Null), ("j".to_string(), Node::s("a"))])));
    // the special key as a *later* entry of the mapping, and below another key
    v.extend(KEYS.iter().map(|k| Node::Map(vec![("j".to_string(), Node::Int(1)), (k.to_string(), Node::Int(2))])));
    v.extend(KEYS.iter().map(|k| Node::Map(vec![("j".to_string(), Node::Map(vec![(k.to_string(), Node::s("a")), ("i".to_string(), Node::Int(1))]))])));
    v
}

pub fn trees_upto(n: usize, leaves: &[Node]) -> Vec<Node> {
    (1..=n).flat_map(|k| trees_exact(k, leaves)).collect()
}

/// Sub-spaces per tier. `level`: 0 = quick, 1 = thorough.
pub fn plan(quick: bool) -> Vec<Space> {
    let full = leaves_full();
    let all_w = Wrap::ALL.to_vec();
    let all_b = Brk::ALL.to_vec();
    let mut v = Vec::new();
    let mut t12 = trees_upto(2, &full);
    t12.extend(key_trees());
    v.push(Space {
        name: "styles/n<=2",
        what: format!("all trees with <= 2 nodes over the full leaf alphabet ({} leaves) + {} special-key mappings; every scalar/key/collection style; every wrapper; LF/CRLF/CR", full.len(), KEYS.len() * 4),
        trees: t12,
        opts: vec![Opts::full()],
        wraps: all_w.clone(),
        brks: all_b.clone(),
        stream: 0,
    });
    let l3 = if quick { leaves_small(9) } else { leaves_small(20) };
    v.push(Space {
        name: "styles/n=3",
        what: format!("all trees with exactly 3 nodes over {} leaves; every style chosen independently at every node; wrappers none/start-end/inline; LF/CRLF/CR", l3.len()),
        trees: trees_exact(3, &l3),
        opts: vec![Opts::full()],
        wraps: vec![Wrap::None, Wrap::StartEnd, Wrap::Inline],
        brks: all_b.clone(),
        stream: 0,
    });
    if !quick {
        // pairs over the full alphabet: adjacency effects between any two leaves
        let mut pairs = Vec::new();
        for a in &full {
            for b in &full {
                pairs.push(Node::Map(vec![("k".into(), a.clone()), ("j".into(), b.clone())]));
                pairs.push(Node::Seq(vec![a.clone(), b.clone()]));
            }
        }
        v.push(Space {
            name: "styles/pairs-full-alphabet",
            what: format!("{{k: a, j: b}} and [a, b] for every ordered pair of the {} leaves; every style at every node; no wrapper; LF/CRLF/CR", full.len()),
            trees: pairs,
            opts: vec![Opts::full()],
            wraps: vec![Wrap::None],
            brks: all_b.clone(),
            stream: 0,
        });
    }
    let lc = if quick { leaves_small(6) } else { leaves_small(12) };
    let tc = trees_upto(3, &lc);
    v.push(Space {
        name: "comments",
        what: format!("trees with <= 3 nodes over {} leaves; reduced scalar styles; a trailing comment in every place where one is certainly legal (after scalars, flow collections, block scalar headers, `key:` / `-` before a nested block)", lc.len()),
        trees: tc.clone(),
        opts: vec![opt(2, Forms::Reduced, true, 0)],
        wraps: vec![Wrap::None],
        brks: all_b.clone(),
        stream: 0,
    });
    v.push(Space {
        name: "interline",
        what: "same trees; reduced styles; blank line / comment line at the entries' indent / comment line at column 0 in every gap between block collection entries (never after a block scalar)".into(),
        trees: tc.clone(),
        opts: vec![opt(2, Forms::Reduced, false, 1), opt(2, Forms::Reduced, false, 2), opt(2, Forms::Reduced, false, 3)],
        wraps: vec![Wrap::None],
        brks: all_b.clone(),
        stream: 0,
    });
    v.push(Space {
        name: "indent",
        what: "same trees; indentation step 1 and 4 (nested collections, block scalar content and indentation indicators, compact `-   k: v`); reduced and full styles".into(),
        trees: tc.clone(),
        opts: if quick { vec![opt(1, Forms::Reduced, false, 0), opt(4, Forms::Reduced, false, 0)] } else { vec![opt(1, Forms::Full, false, 0), opt(4, Forms::Full, false, 0)] },
        wraps: vec![Wrap::None],
        brks: all_b.clone(),
        stream: 0,
    });
    let l4 = if quick { leaves_small(3) } else { leaves_small(6) };
    v.push(Space {
        name: "n=4",
        what: format!("all trees with exactly 4 nodes over {} leaves; reduced styles; wrappers none/start-end", l4.len()),
        trees: trees_exact(4, &l4),
        opts: vec![Opts::reduced()],
        wraps: vec![Wrap::None, Wrap::StartEnd],
        brks: all_b.clone(),
        stream: 0,
    });
    if quick {
        let l5 = vec![Node::Null];
        v.push(Space {
            name: "n=5",
            what: "all trees with exactly 5 nodes whose leaves are null; reduced styles; no wrapper".into(),
            trees: trees_exact(5, &l5),
            opts: vec![Opts::reduced()],
            wraps: vec![Wrap::None],
            brks: all_b.clone(),
            stream: 0,
        });
    }
    if !quick {
        let l5 = leaves_small(3);
        v.push(Space {
            name: "n=5",
            what: format!("all trees with exactly 5 nodes over {} leaves; reduced styles; no wrapper", l5.len()),
            trees: trees_exact(5, &l5),
            opts: vec![Opts::reduced()],
            wraps: vec![Wrap::None],
            brks: all_b.clone(),
            stream: 0,
        });
    }
    let subs = if quick { trees_upto(2, &leaves_small(8)) } else { trees_upto(2, &full) };
    v.push(Space {
        name: "anchors",
        what: format!("6 shapes with two or three equal subtrees X ({} choices of X, <= 2 nodes): `&x` on the first, `*x` for the others; every style of X", subs.len()),
        trees: anchor_trees(&subs),
        opts: vec![Opts::full()],
        wraps: vec![Wrap::None, Wrap::Start],
        brks: all_b.clone(),
        stream: 0,
    });
    let lm = if quick { leaves_small(5) } else { leaves_small(8) };
    let pool = trees_upto(2, &lm);
    v.push(Space {
        name: "streams/2",
        what: format!("every ordered pair of documents from {} trees (<= 2 nodes over {} leaves), reduced styles, every rendering of both; separators: bare first + `---`, `---` both, `---`/`...` both, `--- x` inline", pool.len(), lm.len()),
        trees: pool.clone(),
        opts: vec![Opts::reduced()],
        wraps: vec![Wrap::None, Wrap::Start, Wrap::StartEnd, Wrap::Inline],
        brks: all_b.clone(),
        stream: 2,
    });
    let pool3 = if quick { trees_upto(1, &leaves_small(4)).into_iter().chain([Node::Map(vec![("k".into(), Node::s("a"))]), Node::Seq(vec![Node::Null])]).collect::<Vec<_>>() } else { trees_upto(2, &leaves_small(3)) };
    v.push(Space {
        name: "streams/3",
        what: format!("every ordered triple of documents from {} trees, reduced styles, every rendering; same separators", pool3.len()),
        trees: pool3,
        opts: vec![Opts::reduced()],
        wraps: vec![Wrap::None, Wrap::Start, Wrap::StartEnd, Wrap::Inline],
        brks: all_b,
        stream: 3,
    });
    v
}

fn with_doc_prefix(paths: &[Vec<Step>], d: usize) -> Vec<Vec<Step>> {
    paths
        .iter()
        .map(|p| {
            let mut q = vec![Step::Idx(d)];
            q.extend(p.iter().cloned());
            q
        })
        .collect()
}

/// Enumerate every case of every sub-space of the plan, sharded over threads.
/// `only`: restrict to sub-spaces whose name passes the filter.
pub fn explore_plan(ctx: &Ctx, spaces: &[Space], f: impl Fn(&Case, &mut Report) + Sync) -> Report {
    // work items: (space, tree index) — for streams the tree index is the FIRST document
    let mut items: Vec<(usize, usize)> = Vec::new();
    for (si, s) in spaces.iter().enumerate() {
        for ti in 0..s.trees.len() {
            items.push((si, ti));
        }
    }
    let mut rep = par_range(ctx, items.len() as u64, 1, |i, rep| {
        let (si, ti) = items[i as usize];
        let sp = &spaces[si];
        rep.space(sp.name);
        if sp.stream == 0 {
            let tree = &sp.trees[ti];
            let exp = tree.to_json();
            let docs = Value::Array(vec![exp.clone()]);
            for o in &sp.opts {
                let mut g = Gen::new(*o);
                let rs = g.document(tree);
                let paths = with_doc_prefix(&g.paths, 0);
                for (frag, inline_ok) in &rs {
                    for &w in &sp.wraps {
                        if w == Wrap::Inline && !inline_ok {
                            continue;
                        }
                        for &b in &sp.brks {
                            let d = assemble(&[(frag, w)], b);
                            f(&Case { space: sp.name, text: &d.text, marks: &d.marks, paths: &paths, expected: &exp, docs: &docs, brk: b, wrap: w }, rep);
                        }
                    }
                }
            }
        } else {
            // streams: first document = tree ti; the others range over all trees
            let o = sp.opts[0];
            let rend: Vec<(Vec<(Frag, bool)>, Vec<Vec<Step>>, Value)> = sp
                .trees
                .iter()
                .map(|t| {
                    let mut g = Gen::new(o);
                    let rs = g.document(t);
                    (rs, g.paths.clone(), t.to_json())
                })
                .collect();
            let n = sp.trees.len();
            let k = sp.stream;
            let mut idx = vec![0usize; k];
            idx[0] = ti;
            loop {
                // all renderings of the chosen trees
                let docs = Value::Array(idx.iter().map(|&t| rend[t].2.clone()).collect());
                let mut paths: Vec<Vec<Step>> = Vec::new();
                let mut base = Vec::new();
                for (d, &t) in idx.iter().enumerate() {
                    base.push(paths.len() as u16);
                    paths.extend(with_doc_prefix(&rend[t].1, d));
                }
                let mut ri = vec![0usize; k];
                'rend: loop {
                    let frs: Vec<&(Frag, bool)> = (0..k).map(|d| &rend[idx[d]].0[ri[d]]).collect();
                    for &w in &sp.wraps {
                        if w == Wrap::Inline && frs.iter().any(|x| !x.1) {
                            continue;
                        }
                        // remap marks of each document into the combined path table
                        let shifted: Vec<Frag> = frs
                            .iter()
                            .enumerate()
                            .map(|(d, x)| {
                                let mut fr = x.0.clone();
                                for m in fr.marks.iter_mut() {
                                    m.pid += base[d];
                                }
                                fr
                            })
                            .collect();
                        let parts: Vec<(&Frag, Wrap)> = shifted.iter().enumerate().map(|(d, fr)| (fr, if d == 0 { w } else if w == Wrap::None { Wrap::Start } else { w })).collect();
                        for &b in &sp.brks {
                            let d = assemble(&parts, b);
                            f(&Case { space: sp.name, text: &d.text, marks: &d.marks, paths: &paths, expected: &docs, docs: &docs, brk: b, wrap: w }, rep);
                        }
                    }
                    // next rendering combination
                    let mut p = k;
                    loop {
                        if p == 0 {
                            break 'rend;
                        }
                        p -= 1;
                        ri[p] += 1;
                        if ri[p] < rend[idx[p]].0.len() {
                            break;
                        }
                        ri[p] = 0;
                    }
                }
                // next tree combination (positions 1..k)
                let mut p = k;
                let mut done = false;
                loop {
                    if p == 1 {
                        done = true;
                        break;
                    }
                    p -= 1;
                    idx[p] += 1;
                    if idx[p] < n {
                        break;
                    }
                    idx[p] = 0;
                }
                if done {
                    break;
                }
            }
        }
    });
    for s in spaces {
        rep.mark_exhaustive(s.name, &s.what);
    }
    rep
}

/// Style of the token at / nearest before byte `off` (for signatures).
pub fn style_at(marks: &[Mark], off: usize) -> &'static str {
    let mut best: Option<&Mark> = None;
    for m in marks {
        if (m.start as usize) <= off && best.map_or(true, |b| m.start >= b.start) {
            best = Some(m);
        }
    }
    match best {
        Some(m) if m.key => match m.style {
            Style::Plain => "key-plain",
            Style::Single => "key-single",
            _ => "key-double",
        },
        Some(m) => m.style.name(),
        None => "none",
    }
}

pub fn marks_json(marks: &[Mark], paths: &[Vec<Step>]) -> Value {
    Value::Array(
        marks
            .iter()
            .map(|m| {
                serde_json::json!({"start": m.start, "end": m.end, "key": m.key, "style": m.style.name(),
                "path": paths[m.pid as usize].iter().map(|s| match s { Step::Key(k) => Value::String(k.clone()), Step::Idx(i) => Value::from(*i) }).collect::<Vec<_>>()})
            })
            .collect(),
    )
}
