"""Reference model of the jq 1.7.1 *core fragment* (oracle of check C24).

jq 1.7.1 is not installed in this image, so the oracle is this model, written from jq's
documented semantics and its own definitions (the jq-coded builtins below are jq 1.7.1's
`builtin.jq` definitions evaluated by this interpreter), and BOUND to jq 1.7.1 in two ways
by py/c24.py before it is used:

* every recorded jq-1.7.1 trace in /repo/tests/data (jq-golden/cases/*, jq-error-messages.tsv)
  whose program lies inside the fragment must be reproduced byte for byte;
* run in `compat16` mode (the documented 1.6 -> 1.7.1 changes of CHANGES switched back) it must
  agree with /usr/bin/jq 1.6 on a (program, input) pair, otherwise the pair is
  "oracle-undetermined" and is not judged.

Anything the model is not sure about raises `Unsupported` ("outside the fragment"): such programs
or pairs are counted, never judged.  Nothing here calls the code under test.

The evaluator is written in continuation-passing style because that is how jq itself runs
(a backtracking stack machine): `ev(ast, env, value, tok, k)` calls `k(out, tok)` once per output,
an error is a Python exception that unwinds through the continuations, and returning from `k` is
backtracking.  That makes jq's path tracking (`path(f)`: a dynamic path register restored on
backtracking, value identity checked at every path step) and both generations of try/catch
(1.7.1: errors raised *after* the body produced an output are not caught; 1.6: they are)
direct transcriptions of execute.c instead of approximations.
"""
import json, math, struct, sys

sys.setrecursionlimit(20000)

# ------------------------------------------------------------------ documented 1.6 -> 1.7.1 changes --
# A (program, input) pair is judged only if jq 1.6 agrees with this model run with these switched
# back to the 1.6 behaviour.  Each entry: what changed, and where it is documented / recorded.
CHANGES = {
    "try-downstream": "1.6 try/catch (and `?`) also catches errors raised downstream of the body's outputs "
                      "(jq 1.7 NEWS: 'try catches more than it should' #2750); 1.6 `try A catch B` re-raises `break`, "
                      "1.7.1 catches it (golden try_break_not_caught)",
    "error-null": "1.6 `error(null)` behaves like `empty` inside try / is a silent failure outside; 1.7.1 raises null "
                  "(jq 1.7 NEWS; golden try_catch_null, error_uncaught_null_payload)",
    "limit-0": "1.6 `limit(0; f)` emits the first output of f; 1.7.1 emits nothing (jq 1.7 NEWS #1994)",
    "modify-first-or-delete": "`p |= f`: 1.6 keeps the LAST output of f and turns `empty` into null; 1.7.1 uses the FIRST output "
                              "and deletes the path on `empty` (jq 1.7 NEWS; golden update_multi_output_rhs)",
    "from-entries": "from_entries: 1.6 accepts k/v/K/V aliases and stringifies non-string keys; 1.7.1 definition as recorded in "
                    "docs/compliance/jq/limitations.md (golden from_entries_*, error table)",
    "ascii-case-jq": "ascii_downcase/ascii_upcase: C builtin in 1.6 ('ascii_downcase input must be a string'); 1.7.1 reports "
                     "'explode input must be a string' (jq-error-messages.tsv)",
    "isempty": "isempty(g): 1.6 `0 == ((label $go | g | (1, break $go)) // 0)` evaluates g past its first output; 1.7.1 stops (NEWS)",
    "any-all-short-circuit": "any/all(gen; cond): 1.7.1 short-circuits (golden any_gen_cond_satisfied_before_error); 1.6 reduces over all",
    "implode-checks": "implode: 1.6 asserts on non-numeric / invalid codepoints, 1.7.1 raises (error table)",
    "nan-order": "1.7.1 sorts nan below every number and nan < nan is true (golden nan_*); 1.6 compares with C doubles",
    "indices-overlap": "indices/index/rindex on strings: 1.6 skips overlapping matches, 1.7.1 reports them (jq 1.7 NEWS)",
    "walk-def": "walk(f): 1.6 rebuilds objects key by key (sorted via keys), 1.7.1 is `def w: if object then map_values(w) ...` (NEWS)",
    "tojson-number-literal": "1.7.1 keeps the canonical decimal literal of unchanged numbers (golden number_literal_*); the fragment "
                             "admits only numbers whose literal equals their shortest double rendering, so this never shows",
    "ltrimstr-etc": "none",
    "error-exit": "1.6 exits 5 only when the LAST input failed; single-input runs are identical",
    "getpath-null-path-error": "none",
    "base64d-error": "@base64d on undecodable input: 1.7.1 message as in limitations.md; 1.6 returns partial garbage",
    "splits-null": "none",
    "if-without-else": "1.7 allows `if c then a end`; 1.6 does not compile it (jq 1.7 NEWS)",
    "input-line-in-error": "none",
    "object-key-error": "{(k): v} with non-string k: same sentence in both; listed for completeness",
    "tonumber-messages": "none",
    "min-max-by-empty": "none",
    "slice-paths": "none",
    "delpaths-sort": "none",
    "string-multiply-zero": "`\"x\" * 0`: 1.6 and 1.7.1 both give null (changed only in 1.8)",
    "string-repeat-lt1": "1.6: `\"x\" * 0.5` is null (n <= 0 after truncation rule `n > 0` on the double: 0.5 > 0 gives \"x\"): same in both",
    "alt-destructure": "`?//` is outside the fragment",
    "abs-toarray-trim-pick-etc": "builtins added in 1.7/1.7.1 (pick, abs, toarray, trim, ltrim, rtrim, have_literal_numbers, "
                                 "splits/0, @base32d, debug/1, scan/2, getpath in paths, add/1, ...) have no 1.6 witness and no recorded "
                                 "trace: outside the fragment",
}


class Unsupported(Exception):
    """The construct / value is outside the modelled fragment (never judged)."""


class JqError(Exception):
    def __init__(self, value):
        Exception.__init__(self)
        self.value = value


class _Wrapped(Exception):
    """1.7.1 TRY_END: an error raised by the continuation of a try body, in transit to beyond that try."""

    def __init__(self, err, owner):
        Exception.__init__(self)
        self.err = err
        self.owner = owner


class LabelObj:
    """The value `break $l` raises ({"__jq": n} in jq).  Opaque: observing it is outside the fragment."""

    def __init__(self, ident):
        self.ident = ident


# --------------------------------------------------------------------------------------- values --

def kind(v):
    if v is None:
        return "null"
    if v is True or v is False:
        return "boolean"
    if isinstance(v, float):
        return "number"
    if isinstance(v, str):
        return "string"
    if isinstance(v, list):
        return "array"
    if isinstance(v, dict):
        return "object"
    if isinstance(v, LabelObj):
        raise Unsupported("break label object observed as a value")
    if isinstance(v, int):
        raise AssertionError("int leaked into the value domain")
    raise AssertionError("bad value %r" % (v,))


KIND_ORDER = {"null": 0, "false": 1, "true": 2, "number": 3, "string": 4, "array": 5, "object": 6}


def _rank(v):
    if v is None:
        return 0
    if v is False:
        return 1
    if v is True:
        return 2
    return KIND_ORDER[kind(v)]


def utf8(s):
    return s.encode("utf-8", "surrogatepass")


def cmp_str(a, b):
    # jq compares strings as UTF-8 bytes (memcmp, then length) == code point order
    ab, bb = utf8(a), utf8(b)
    return (ab > bb) - (ab < bb)


class Model:
    """Holds the mode switches (1.7.1 vs compat16)."""

    def __init__(self, compat16=False):
        self.c16 = compat16

    # -- total order (jv_cmp) --
    def cmp(self, a, b):
        ra, rb = _rank(a), _rank(b)
        if ra != rb:
            # nan: 1.7.1 treats a nan like null *when compared with a number* (below)
            return (ra > rb) - (ra < rb)
        if ra <= 2:
            return 0
        if ra == 3:
            if a != a or b != b:
                if self.c16:
                    # C: (da < db) ? -1 : (da == db) ? 0 : 1
                    return -1 if a < b else (0 if a == b else 1)
                # 1.7.1: a nan is compared as null against the other number => always "less"
                if a != a:
                    return -1
                return 1
            return (a > b) - (a < b)
        if ra == 4:
            return cmp_str(a, b)
        if ra == 5:
            for x, y in zip(a, b):
                c = self.cmp(x, y)
                if c:
                    return c
            return (len(a) > len(b)) - (len(a) < len(b))
        ka, kb = sorted(a.keys(), key=utf8), sorted(b.keys(), key=utf8)
        c = self.cmp(ka, kb)
        if c:
            return c
        for key in ka:
            c = self.cmp(a[key], b[key])
            if c:
                return c
        return 0

    def equal(self, a, b):
        return self.cmp(a, b) == 0

    def sort(self, xs, keyf=None):
        import functools
        if keyf is None:
            return sorted(xs, key=functools.cmp_to_key(self.cmp))
        return sorted(xs, key=functools.cmp_to_key(lambda p, q: self.cmp(keyf(p), keyf(q))))


# --------------------------------------------------------------------------- number rendering --

def fmt_number(x):
    """jvp_dtoa_fmt: shortest round-trip digits; exponent form iff decpt <= -4 or decpt > ndigits + 15."""
    if x != x:
        return "null"
    if x == math.inf:
        x = 1.7976931348623157e308
    elif x == -math.inf:
        x = -1.7976931348623157e308
    if x == 0:
        return "-0" if math.copysign(1.0, x) < 0 else "0"
    sign = "-" if x < 0 else ""
    r = repr(abs(x))
    # extract digits and decimal exponent from Python's shortest repr
    if "e" in r or "E" in r:
        mant, ex = r.lower().split("e")
        ex = int(ex)
    else:
        mant, ex = r, 0
    if "." in mant:
        ip, fp = mant.split(".")
    else:
        ip, fp = mant, ""
    digits = (ip + fp).lstrip("0")
    decpt = len(ip.lstrip("0")) + ex if ip.strip("0") else ex - (len(fp) - len(fp.lstrip("0")))
    digits = digits.rstrip("0") or "0"
    if ip.strip("0") == "":
        # 0.00ddd: digits after stripping leading zeros of fp
        digits = fp.lstrip("0").rstrip("0") or "0"
    nd = len(digits)
    if decpt <= -4 or decpt > nd + 15:
        s = digits[0]
        if nd > 1:
            s += "." + digits[1:]
        e = decpt - 1
        s += "e" + ("-" if e < 0 else "+") + ("%02d" % abs(e))
        return sign + s
    if decpt <= 0:
        return sign + "0." + "0" * (-decpt) + digits
    if decpt >= nd:
        return sign + digits + "0" * (decpt - nd)
    return sign + digits[:decpt] + "." + digits[decpt:]


def canonical_literal(text):
    """Is this decimal literal one whose 1.7.1 rendering equals the shortest double rendering?
    (1.7.1 keeps the literal's canonical decimal form for unchanged numbers: 1.0 -> 1.0, 1e100 -> 1E+100.)"""
    try:
        x = float(text)
    except ValueError:
        return False
    if x != x or x in (math.inf, -math.inf):
        return False
    if abs(x) >= 1e15 and x != 0:
        return False
    return fmt_number(x) == text


# ------------------------------------------------------------------------------- JSON in / out --

def dump_string(s, ascii_only=False):
    out = ['"']
    for ch in s:
        c = ord(ch)
        if ch == '"':
            out.append('\\"')
        elif ch == "\\":
            out.append("\\\\")
        elif ch == "\n":
            out.append("\\n")
        elif ch == "\t":
            out.append("\\t")
        elif ch == "\r":
            out.append("\\r")
        elif ch == "\b":
            out.append("\\b")
        elif ch == "\f":
            out.append("\\f")
        elif c < 0x20 or c == 0x7f:
            out.append("\\u%04x" % c)
        elif c > 126 and ascii_only:
            if c >= 0x10000:
                c -= 0x10000
                out.append("\\u%04x\\u%04x" % (0xD800 | (c >> 10), 0xDC00 | (c & 0x3FF)))
            else:
                out.append("\\u%04x" % c)
        else:
            out.append(ch)
    out.append('"')
    return "".join(out)


def dump(v, sort_keys=False, ascii_only=False, indent=None, _lvl=0):
    k = kind(v)
    if k == "null":
        return "null"
    if k == "boolean":
        return "true" if v else "false"
    if k == "number":
        return fmt_number(v)
    if k == "string":
        return dump_string(v, ascii_only)
    if k == "array":
        if not v:
            return "[]"
        if indent is None:
            return "[" + ",".join(dump(x, sort_keys, ascii_only) for x in v) + "]"
        pad = " " * (indent * (_lvl + 1))
        return "[\n" + ",\n".join(pad + dump(x, sort_keys, ascii_only, indent, _lvl + 1) for x in v) + "\n" + " " * (indent * _lvl) + "]"
    keys = list(v.keys())
    if sort_keys:
        keys.sort(key=utf8)
    if not keys:
        return "{}"
    if indent is None:
        return "{" + ",".join(dump_string(key, ascii_only) + ":" + dump(v[key], sort_keys, ascii_only) for key in keys) + "}"
    pad = " " * (indent * (_lvl + 1))
    return "{\n" + ",\n".join(pad + dump_string(key, ascii_only) + ": " + dump(v[key], sort_keys, ascii_only, indent, _lvl + 1)
                              for key in keys) + "\n" + " " * (indent * _lvl) + "}"


def _num_hook(text):
    if not canonical_literal(text):
        raise Unsupported("number literal %s is not in canonical form (1.7.1 keeps literals)" % text)
    return float(text)


def _check_strings(v):
    if isinstance(v, str):
        for ch in v:
            c = ord(ch)
            if 0xD800 <= c <= 0xDFFF:
                raise Unsupported("lone surrogate in input")
    elif isinstance(v, list):
        for x in v:
            _check_strings(x)
    elif isinstance(v, dict):
        for a, b in v.items():
            _check_strings(a)
            _check_strings(b)


def parse_json(text):
    """One JSON document -> model value.  Duplicate keys: first position, last value (jq's object insert)."""
    def pairs(ps):
        d = {}
        for a, b in ps:
            d[a] = b
        return d
    try:
        v = json.loads(text, parse_float=_num_hook, parse_int=_num_hook, object_pairs_hook=pairs,
                       parse_constant=lambda c: (_ for _ in ()).throw(Unsupported("NaN/Infinity literal in input")))
    except ValueError as e:
        raise Unsupported("input is not one JSON document: %s" % e)
    _check_strings(v)
    return v


# ---------------------------------------------------------------------------------------- lexer --

KEYWORDS = {"def", "if", "then", "elif", "else", "end", "as", "reduce", "foreach", "try", "catch", "label", "import",
            "include", "and", "or", "not_kw_placeholder", "__loc__"}
KEYWORDS.discard("not_kw_placeholder")
OPS3 = ["?//", "//="]
OPS2 = ["|=", "+=", "-=", "*=", "/=", "%=", "==", "!=", "<=", ">=", "//", ".."]
OPS1 = list("|,.[](){}:;=<>+-*/%?$")


class Tok:
    __slots__ = ("t", "v", "pos")

    def __init__(self, t, v, pos):
        self.t, self.v, self.pos = t, v, pos

    def __repr__(self):
        return "%s:%r" % (self.t, self.v)


class ParseError(Exception):
    pass


def _isidstart(c):
    return c.isascii() and (c.isalpha() or c == "_")


def _isid(c):
    return c.isascii() and (c.isalnum() or c == "_")


def lex(src):
    toks = []
    i, n = 0, len(src)
    while i < n:
        c = src[i]
        if c in " \t\r\n":
            i += 1
            continue
        if c == "#":
            while i < n and src[i] != "\n":
                i += 1
            continue
        if c == '"':
            parts, i = lex_string(src, i)
            toks.append(Tok("str", parts, i))
            continue
        if c.isdigit() or (c == "." and i + 1 < n and src[i + 1].isdigit()):
            j = i
            while j < n and src[j].isdigit():
                j += 1
            if j < n and src[j] == ".":
                j += 1
                while j < n and src[j].isdigit():
                    j += 1
            if j < n and src[j] in "eE":
                k = j + 1
                if k < n and src[k] in "+-":
                    k += 1
                if k < n and src[k].isdigit():
                    while k < n and src[k].isdigit():
                        k += 1
                    j = k
            toks.append(Tok("num", src[i:j], i))
            i = j
            continue
        if c == "." and i + 1 < n and _isidstart(src[i + 1]):
            j = i + 1
            while j < n and _isid(src[j]):
                j += 1
            toks.append(Tok("field", src[i + 1:j], i))
            i = j
            continue
        if c == "$" and i + 1 < n and _isidstart(src[i + 1]):
            j = i + 1
            while j < n and (_isid(src[j]) or (src[j] == ":" and j + 2 < n and src[j + 1] == ":" and _isidstart(src[j + 2]))):
                j += 2 if src[j] == ":" else 1
            toks.append(Tok("binding", src[i + 1:j], i))
            i = j
            continue
        if c == "@" and i + 1 < n and _isid(src[i + 1]):
            j = i + 1
            while j < n and _isid(src[j]):
                j += 1
            toks.append(Tok("format", src[i:j], i))
            i = j
            continue
        if _isidstart(c):
            j = i
            while j < n and (_isid(src[j]) or (src[j] == ":" and j + 2 < n and src[j + 1] == ":" and _isidstart(src[j + 2]))):
                j += 2 if src[j] == ":" else 1
            w = src[i:j]
            toks.append(Tok("kw" if w in KEYWORDS else "id", w, i))
            i = j
            continue
        for ops in (OPS3, OPS2, OPS1):
            hit = None
            for o in ops:
                if src.startswith(o, i):
                    hit = o
                    break
            if hit:
                toks.append(Tok("op", hit, i))
                i += len(hit)
                break
        else:
            raise ParseError("unexpected character %r at %d" % (c, i))
    toks.append(Tok("eof", None, n))
    return toks


def lex_string(src, i):
    """src[i] == '"'.  Returns (parts, index after closing quote); parts = list of str | ('interp', source text)."""
    assert src[i] == '"'
    i += 1
    n = len(src)
    parts = []
    cur = []
    while True:
        if i >= n:
            raise ParseError("unterminated string")
        c = src[i]
        if c == '"':
            i += 1
            break
        if c == "\\":
            if i + 1 >= n:
                raise ParseError("bad escape")
            e = src[i + 1]
            if e == "(":
                # interpolation: find the matching paren, honouring nested strings
                depth = 1
                j = i + 2
                while j < n and depth:
                    if src[j] == '"':
                        _, j = lex_string(src, j)
                        continue
                    if src[j] == "(":
                        depth += 1
                    elif src[j] == ")":
                        depth -= 1
                    j += 1
                if depth:
                    raise ParseError("unterminated interpolation")
                if cur:
                    parts.append("".join(cur))
                    cur = []
                parts.append(("interp", src[i + 2:j - 1]))
                i = j
                continue
            m = {"n": "\n", "t": "\t", "r": "\r", "b": "\b", "f": "\f", "/": "/", "\\": "\\", '"': '"'}
            if e in m:
                cur.append(m[e])
                i += 2
                continue
            if e == "u":
                h = src[i + 2:i + 6]
                if len(h) != 4:
                    raise ParseError("bad \\u escape")
                cp = int(h, 16)
                i += 6
                if 0xD800 <= cp < 0xDC00 and src[i:i + 2] == "\\u":
                    lo = int(src[i + 2:i + 6], 16)
                    if 0xDC00 <= lo < 0xE000:
                        cp = 0x10000 + ((cp - 0xD800) << 10) + (lo - 0xDC00)
                        i += 6
                if 0xD800 <= cp < 0xE000:
                    raise Unsupported("lone surrogate escape in program string")
                cur.append(chr(cp))
                continue
            raise ParseError("bad escape \\%s" % e)
        cur.append(c)
        i += 1
    if cur or not parts:
        parts.append("".join(cur))
    return parts, i


# --------------------------------------------------------------------------------------- parser --

class Parser:
    def __init__(self, src):
        self.toks = lex(src)
        self.i = 0

    def peek(self):
        return self.toks[self.i]

    def next(self):
        t = self.toks[self.i]
        self.i += 1
        return t

    def isop(self, v):
        t = self.toks[self.i]
        return t.t == "op" and t.v == v

    def iskw(self, v):
        t = self.toks[self.i]
        return t.t == "kw" and t.v == v

    def expect_op(self, v):
        t = self.next()
        if t.t != "op" or t.v != v:
            raise ParseError("expected %r, got %r" % (v, t))

    def expect_kw(self, v):
        t = self.next()
        if t.t != "kw" or t.v != v:
            raise ParseError("expected %r, got %r" % (v, t))

    # Exp levels -----------------------------------------------------------------
    def parse_program(self):
        e = self.parse_pipe()
        if self.peek().t != "eof":
            raise ParseError("trailing tokens at %r" % self.peek())
        return e

    def parse_pipe(self):
        if self.iskw("def"):
            d = self.parse_def()
            rest = self.parse_pipe()
            return ("def",) + d + (rest,)
        lhs = self.parse_comma()
        if self.isop("|"):
            self.next()
            rhs = self.parse_pipe()
            return ("pipe", lhs, rhs)
        return lhs

    def parse_comma(self):
        lhs = self.parse_alt()
        while self.isop(","):
            self.next()
            rhs = self.parse_alt()
            lhs = ("comma", lhs, rhs)
        return lhs

    def parse_alt(self):
        lhs = self.parse_assign()
        if self.isop("//"):
            self.next()
            rhs = self.parse_alt()  # %right
            return ("alt", lhs, rhs)
        return lhs

    def parse_assign(self):
        lhs = self.parse_or()
        t = self.peek()
        if t.t == "op" and t.v in ("=", "|=", "+=", "-=", "*=", "/=", "%=", "//="):
            self.next()
            rhs = self.parse_alt_in_assign()
            return ("assign", t.v, lhs, rhs)
        return lhs

    def parse_alt_in_assign(self):
        # `a = b // c` parses as a = (b // c)?  No: '//' binds looser than '='; yacc gives (a = b) // c.
        return self.parse_or()

    def parse_or(self):
        lhs = self.parse_and()
        while self.iskw("or"):
            self.next()
            rhs = self.parse_and()
            lhs = ("or", lhs, rhs)
        return lhs

    def parse_and(self):
        lhs = self.parse_cmp()
        while self.iskw("and"):
            self.next()
            rhs = self.parse_cmp()
            lhs = ("and", lhs, rhs)
        return lhs

    def parse_cmp(self):
        lhs = self.parse_add()
        t = self.peek()
        if t.t == "op" and t.v in ("==", "!=", "<", "<=", ">", ">="):
            self.next()
            rhs = self.parse_add()
            return ("binop", t.v, lhs, rhs)
        return lhs

    def parse_add(self):
        lhs = self.parse_mul()
        while True:
            t = self.peek()
            if t.t == "op" and t.v in ("+", "-"):
                self.next()
                rhs = self.parse_mul()
                lhs = ("binop", t.v, lhs, rhs)
            else:
                return lhs

    def parse_mul(self):
        lhs = self.parse_unary()
        while True:
            t = self.peek()
            if t.t == "op" and t.v in ("*", "/", "%"):
                self.next()
                rhs = self.parse_unary()
                lhs = ("binop", t.v, lhs, rhs)
            else:
                return lhs

    def parse_unary(self):
        if self.isop("-"):
            self.next()
            return ("neg", self.parse_mul())
        return self.parse_postfix()

    # Terms ------------------------------------------------------------------------
    def parse_postfix(self):
        t = self.parse_primary()
        while True:
            tk = self.peek()
            if tk.t == "field":
                self.next()
                t = ("index", t, ("lit", tk.v))
            elif tk.t == "op" and tk.v == "." and self.toks[self.i + 1].t == "str":
                self.next()
                s = self.parse_string_token(None)
                t = ("index", t, s)
            elif tk.t == "op" and tk.v == "." and self.toks[self.i + 1].t == "op" and self.toks[self.i + 1].v == "[":
                self.next()
                continue
            elif tk.t == "op" and tk.v == "[":
                t = self.parse_bracket_suffix(t)
            elif tk.t == "op" and tk.v == "?":
                self.next()
                t = ("try", t, None)
            elif tk.t == "kw" and tk.v == "as":
                self.next()
                pats = self.parse_patterns()
                self.expect_op("|")
                body = self.parse_pipe()
                return ("as", t, pats, body)
            else:
                return t

    def parse_bracket_suffix(self, t):
        self.expect_op("[")
        if self.isop("]"):
            self.next()
            return ("iter", t)
        if self.isop(":"):
            self.next()
            hi = self.parse_pipe()
            self.expect_op("]")
            return ("slice", t, None, hi)
        e = self.parse_pipe()
        if self.isop(":"):
            self.next()
            if self.isop("]"):
                self.next()
                return ("slice", t, e, None)
            hi = self.parse_pipe()
            self.expect_op("]")
            return ("slice", t, e, hi)
        self.expect_op("]")
        return ("index", t, e)

    def parse_string_token(self, fmt):
        tk = self.next()
        assert tk.t == "str"
        parts = []
        for p in tk.v:
            if isinstance(p, str):
                parts.append(p)
            else:
                parts.append(Parser(p[1]).parse_program())
        if len(parts) == 1 and isinstance(parts[0], str) and fmt is None:
            return ("lit", parts[0])
        return ("str", fmt, parts)

    def parse_primary(self):
        tk = self.peek()
        if tk.t == "num":
            self.next()
            if not canonical_literal(tk.v):
                raise Unsupported("program number literal %s not in canonical form" % tk.v)
            return ("lit", float(tk.v))
        if tk.t == "str":
            return self.parse_string_token(None)
        if tk.t == "format":
            self.next()
            if self.peek().t == "str":
                return self.parse_string_token(tk.v)
            return ("format", tk.v)
        if tk.t == "field":
            self.next()
            return ("index", ("id",), ("lit", tk.v))
        if tk.t == "binding":
            self.next()
            if tk.v == "__loc__":
                raise Unsupported("$__loc__")
            if tk.v == "ENV":
                raise Unsupported("$ENV")
            return ("var", tk.v)
        if tk.t == "op":
            if tk.v == "..":
                self.next()
                return ("call", "recurse", ())
            if tk.v == ".":
                self.next()
                nx = self.peek()
                if nx.t == "str":
                    s = self.parse_string_token(None)
                    return ("index", ("id",), s)
                if nx.t == "op" and nx.v == "[":
                    return self.parse_bracket_suffix(("id",))
                return ("id",)
            if tk.v == "(":
                self.next()
                e = self.parse_pipe()
                self.expect_op(")")
                return ("paren", e)
            if tk.v == "[":
                self.next()
                if self.isop("]"):
                    self.next()
                    return ("array", None)
                e = self.parse_pipe()
                self.expect_op("]")
                return ("array", e)
            if tk.v == "{":
                return self.parse_object()
            if tk.v == "-":
                self.next()
                return ("neg", self.parse_postfix())
            if tk.v == "?//":
                raise Unsupported("?// destructuring alternation")
        if tk.t == "kw":
            if tk.v == "if":
                return self.parse_if()
            if tk.v == "try":
                self.next()
                body = self.parse_post_try()
                handler = None
                if self.iskw("catch"):
                    self.next()
                    handler = self.parse_post_try()
                return ("try", body, handler if handler is not None else None) if handler is None else ("trycatch", body, handler)
            if tk.v == "reduce":
                self.next()
                src = self.parse_postfix_noas()
                self.expect_kw("as")
                pats = self.parse_patterns()
                self.expect_op("(")
                init = self.parse_pipe()
                self.expect_op(";")
                upd = self.parse_pipe()
                self.expect_op(")")
                return ("reduce", src, pats, init, upd)
            if tk.v == "foreach":
                self.next()
                src = self.parse_postfix_noas()
                self.expect_kw("as")
                pats = self.parse_patterns()
                self.expect_op("(")
                init = self.parse_pipe()
                self.expect_op(";")
                upd = self.parse_pipe()
                ext = None
                if self.isop(";"):
                    self.next()
                    ext = self.parse_pipe()
                self.expect_op(")")
                return ("foreach", src, pats, init, upd, ext)
            if tk.v == "label":
                self.next()
                b = self.next()
                if b.t != "binding":
                    raise ParseError("label needs $name")
                self.expect_op("|")
                body = self.parse_pipe()
                return ("label", b.v, body)
            if tk.v == "def":
                d = self.parse_def()
                rest = self.parse_pipe()
                return ("def",) + d + (rest,)
            if tk.v in ("import", "include"):
                raise Unsupported("modules")
        if tk.t == "id":
            self.next()
            if tk.v == "break":
                b = self.next()
                if b.t != "binding":
                    raise ParseError("break needs $label")
                return ("break", b.v)
            args = []
            if self.isop("("):
                self.next()
                args.append(self.parse_pipe())
                while self.isop(";"):
                    self.next()
                    args.append(self.parse_pipe())
                self.expect_op(")")
            return ("call", tk.v, tuple(args))
        raise ParseError("unexpected token %r" % tk)

    def parse_postfix_noas(self):
        # the Term before `as` in reduce/foreach: a postfix term without the `as` continuation
        t = self.parse_primary()
        while True:
            tk = self.peek()
            if tk.t == "field":
                self.next()
                t = ("index", t, ("lit", tk.v))
            elif tk.t == "op" and tk.v == "." and self.toks[self.i + 1].t == "str":
                self.next()
                t = ("index", t, self.parse_string_token(None))
            elif tk.t == "op" and tk.v == "." and self.toks[self.i + 1].t == "op" and self.toks[self.i + 1].v == "[":
                self.next()
            elif tk.t == "op" and tk.v == "[":
                t = self.parse_bracket_suffix(t)
            elif tk.t == "op" and tk.v == "?":
                self.next()
                t = ("try", t, None)
            else:
                return t

    def parse_post_try(self):
        # body / handler of try: binds tighter than every binary operator ("try"/"catch" have the highest precedence)
        if self.isop("-"):
            self.next()
            return ("neg", self.parse_post_try())
        return self.parse_postfix_noas()

    def parse_if(self):
        self.expect_kw("if")
        c = self.parse_pipe()
        self.expect_kw("then")
        a = self.parse_pipe()
        if self.iskw("elif"):
            # rewrite `elif` as a nested if sharing the same `end`
            self.toks[self.i] = Tok("kw", "if", self.toks[self.i].pos)
            b = self.parse_if()
            return ("if", c, a, b)
        if self.iskw("else"):
            self.next()
            b = self.parse_pipe()
            self.expect_kw("end")
            return ("if", c, a, b)
        self.expect_kw("end")
        return ("if", c, a, None)

    def parse_def(self):
        self.expect_kw("def")
        name = self.next()
        if name.t not in ("id", "kw"):
            raise ParseError("bad def name")
        params = []
        if self.isop("("):
            self.next()
            while True:
                p = self.next()
                if p.t == "binding":
                    params.append(("$", p.v))
                elif p.t in ("id", "kw"):
                    params.append(("f", p.v))
                else:
                    raise ParseError("bad parameter")
                if self.isop(";"):
                    self.next()
                    continue
                self.expect_op(")")
                break
        self.expect_op(":")
        body = self.parse_pipe()
        self.expect_op(";")
        return (name.v, tuple(params), body)

    def parse_patterns(self):
        p = self.parse_pattern()
        if self.isop("?//"):
            raise Unsupported("?// destructuring alternation")
        return p

    def parse_pattern(self):
        tk = self.next()
        if tk.t == "binding":
            return ("pvar", tk.v)
        if tk.t == "op" and tk.v == "[":
            items = [self.parse_pattern()]
            while self.isop(","):
                self.next()
                items.append(self.parse_pattern())
            self.expect_op("]")
            return ("parr", tuple(items))
        if tk.t == "op" and tk.v == "{":
            ents = []
            while True:
                k = self.peek()
                if k.t == "binding":
                    self.next()
                    if self.isop(":"):
                        self.next()
                        ents.append((("keyvar", k.v), self.parse_pattern()))
                    else:
                        ents.append((("keyvar", k.v), None))
                elif k.t in ("id", "kw"):
                    self.next()
                    self.expect_op(":")
                    ents.append((("lit", k.v), self.parse_pattern()))
                elif k.t == "str":
                    s = self.parse_string_token(None)
                    self.expect_op(":")
                    ents.append((s, self.parse_pattern()))
                elif k.t == "op" and k.v == "(":
                    self.next()
                    e = self.parse_pipe()
                    self.expect_op(")")
                    self.expect_op(":")
                    ents.append((e, self.parse_pattern()))
                else:
                    raise ParseError("bad object pattern")
                if self.isop(","):
                    self.next()
                    continue
                self.expect_op("}")
                break
            return ("pobj", tuple(ents))
        raise ParseError("bad pattern at %r" % tk)

    def parse_object(self):
        self.expect_op("{")
        ents = []
        if self.isop("}"):
            self.next()
            return ("object", ())
        while True:
            k = self.peek()
            if k.t == "binding":
                self.next()
                if k.v == "__loc__":
                    raise Unsupported("$__loc__")
                key, val = ("lit", k.v), ("var", k.v)
                if self.isop(":"):
                    raise ParseError("{$x: ...} is not jq")
                ents.append((key, val))
            elif k.t in ("id", "kw"):
                self.next()
                key = ("lit", k.v)
                if self.isop(":"):
                    self.next()
                    ents.append((key, self.parse_objval()))
                else:
                    ents.append((key, ("index", ("id",), ("lit", k.v))))
            elif k.t == "num":
                raise Unsupported("numeric object key literal")
            elif k.t == "str" or k.t == "format":
                if k.t == "format":
                    self.next()
                    s = self.parse_string_token(k.v)
                else:
                    s = self.parse_string_token(None)
                if self.isop(":"):
                    self.next()
                    ents.append((s, self.parse_objval()))
                else:
                    ents.append((s, ("index", ("id",), s)))
            elif k.t == "op" and k.v == "(":
                self.next()
                e = self.parse_pipe()
                self.expect_op(")")
                self.expect_op(":")
                ents.append((("paren", e), self.parse_objval()))
            else:
                raise ParseError("bad object key %r" % k)
            if self.isop(","):
                self.next()
                continue
            self.expect_op("}")
            break
        return ("object", tuple(ents))

    def parse_objval(self):
        # ExpD: ExpD '|' ExpD | '-' ExpD | Term
        if self.isop("-"):
            self.next()
            lhs = ("neg", self.parse_objval_term())
        else:
            lhs = self.parse_objval_term()
        if self.isop("|"):
            self.next()
            return ("pipe", lhs, self.parse_objval())
        return lhs

    def parse_objval_term(self):
        return self.parse_postfix_noas()


def parse(src):
    return Parser(src).parse_program()
