SPEC = dict(
    kind="mixed", bins=rust("c19"), module="c19cli", design_ref="§3-C19",
    technique="bounded-exhaustive input enumeration (token strings, truncations / single-byte mutations of small valid documents, "
              "nesting scale families) with a crash oracle, in crash-contained worker processes (library) and through the batched real CLI",
    rule="inputs: every string of <=4 (thorough 5) tokens over 22 JSON tokens, <=4 over 30 YAML tokens, <=8 (10) over the 5 DSV symbols; "
         "every prefix / single-byte substitution / deletion (thorough: insertion) of ~200 (2000) JSON, ~85 (175) YAML and 18 DSV seed documents; "
         "nesting shapes x depth {128,129,255,256,257,384,385,5000,100000}; every string of <=3 (4) tokens over 62 jq program tokens, joined by ' ' and by ''; "
         "CLI: JSON / YAML strings of <=3 tokens, DSV <=6, programs <=2 (thorough 3) and the quick seed set (thorough: 47-byte substitution alphabet, plus "
         "one more token in wall-budgeted slices), 10 command lines. A case is distinct+non-trivial when the fingerprint of everything the "
         "library returned for it (validator verdict, node count, every accessor's value, printed lengths) — CLI: (command, status, stderr class) — is new",
    level_text="Every input of the bounded spaces is indexed, validated, fully traversed through every public accessor and printed as JSON and YAML "
               "by the real library (each accessor call individually guarded, so one defect cannot mask another), and piped through the real "
               "jq / yq command lines. A panic, abort, signal, stack overflow or out-of-bounds access anywhere is reported with a signature naming "
               "the source file, enclosing function and message class (aborts: innermost library frame / API stage). Exhaustive over the stated alphabets.",
    level_note="Harness profile = release + debug-assertions + overflow-checks. Library cases run in worker processes (8 MiB stack, 2 GiB address space, "
               "5 s CPU watchdog per case/stage): a dead worker is attributed to the journaled case and re-queued around it. CLI jobs run through the "
               "__verif-batch hook under the same limits; an evenly spread slice is re-run as real processes (byte-identical) and every crash candidate "
               "is re-run as a real process, whose stderr is what gets classified. Watchdog hits are 'undecided' and listed, never a verdict.",
    assumptions=["byte strings outside the token alphabets / single-byte mutation neighbourhoods of the seed documents are out of scope",
                 "the library walk prints at every node only for inputs <= 256 bytes; larger (nesting-family) inputs are printed from the root",
                 "a stack overflow is judged on an 8 MiB stack (the main-thread default); the CLI runs on its own main thread"],
)
