#!/usr/bin/env python3
"""Build seeded/<ID>/meta.json (from the agent's meta, confirm.json, checks.json and seeded/notes.json) and seeded/RESULTS.md."""
import json, os, glob
ROOT = os.path.dirname(os.path.dirname(os.path.abspath(__file__)))
SD = os.path.join(ROOT, "seeded")
notes = json.load(open(os.path.join(SD, "notes.json")))
rows = []
for d in sorted(glob.glob(os.path.join(SD, "C*"))):
    sid = os.path.basename(d)
    def load(n):
        p = os.path.join(d, n)
        try:
            return json.load(open(p)) if os.path.exists(p) else None
        except Exception:
            return None
    agent = load("meta.agent.json") or {}
    conf = load("confirm.json") or {}
    chk = load("checks.json") or {}
    meta = {
        "seed": sid, "property": agent.get("property", sid),
        "summary": agent.get("summary"), "needs_to_manifest": agent.get("needs_to_manifest"),
        "files_changed": agent.get("files_changed"),
        "written_by": "independent sub-agent given only the property text and a scratch worktree (tools/mutant_prompt.py)",
        "confirmed_independently": {"command": f"tools/confirm_mutant.sh {sid} <agent output dir>", **conf},
        "checks_run": {"command": f"tools/seed_check.sh {sid} <checks>", **chk},
        "notes": notes.get(sid, {}),
    }
    json.dump(meta, open(os.path.join(d, "meta.json"), "w"), indent=1, ensure_ascii=False)
    det = ", ".join(f"{r['check']}:{'caught' if r['detected'] else 'MISSED'}" for r in chk.get("runs", [])) or "-"
    n = notes.get(sid, {})
    rows.append((sid, "yes" if conf.get("confirmed") else ("pending" if not conf else "NO"), conf.get("suite_summary", "").replace("Summary", "").strip()[:60], det,
                 n.get("first_run", ""), n.get("strengthened", "")))
with open(os.path.join(SD, "RESULTS.md"), "w") as f:
    f.write("# Seeded property-breaking changes\n\nWritten by independent sub-agents from the property text alone; confirmed by `tools/confirm_mutant.sh` "
            "(patch applies to a fresh worktree, the repository's whole suite passes with it, the demonstration fails with it and passes without it); "
            "checked with `tools/seed_check.sh` (checks pointed at a scratch worktree with the patch, `/repo` untouched).\n\n")
    f.write("| seed | confirmed | suite with the change | checks (final, quick tier) | first run | strengthening |\n|---|---|---|---|---|---|\n")
    for r in rows:
        f.write("| " + " | ".join(x.replace("|", "\\|") for x in r) + " |\n")
print(open(os.path.join(SD, "RESULTS.md")).read())
