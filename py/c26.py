"""C26 — yq results do not depend on the input's syntax.

Space (exhaustive): data trees with string / integer / boolean / null leaves and no YAML-only
feature (singles, one-element containers, all two-leaf shapes over a leaf sub-alphabet, special
keys, empty containers), each supplied as
    compact JSON, pretty JSON (-p json), block YAML double-quoted, block YAML plainest style,
    flow YAML double-quoted, flow YAML plainest style, flow YAML with spaces around every
    indicator (-p yaml), and compact JSON / block YAML without -p (auto-detection)
x the presentation-agnostic program list (programs inspecting style / tag / anchor / line /
column / kind / comments are excluded as the statement says).

Oracle: the `-o json -I0` outputs of all nine renderings are equal as JSON values (numbers
numerically), with the same exit status and error text. Text-level differences between equal values
are counted as information only.
"""
import json, re
import batch, common, cligen, ygen
from cligen import Part, BadJson, jeq, jdiff, vclass

PROGS = ['.', '.a', '.[0]', '.[]', '.a.b', 'keys', 'length', 'type', 'map(.)', 'map(type)', 'to_entries', '[.. | scalars]', 'tojson', 'tostring',
         'add', 'sort', 'select(.a == 7)', '.a + 1', '.a = 2', 'del(.a)', 'has("a")', '[paths]', '.[1:]', 'first(.[])', '[.[] | tostring]',
         'map_values(.)', '. == .', '[.[]?] | length', '.a // "d"', 'if .a then 1 else 2 end', '[.[] | . == null]', 'with_entries(.)', '.a |= .',
         'tojson | fromjson', '@json', '[.[] | type]', '.[-1]', 'reverse', 'unique', 'min', 'max', 'any', 'all', 'flatten', 'join(",")',
         'ascii_downcase', 'ltrimstr("a")', 'test("a")', 'splits("a")', '.a * 2', '.a - 1', '. + .', '[.[] | numbers]',
         'to_entries | from_entries', '[leaf_paths]', 'getpath(["a"])', '[.[] | length]', 'utf8bytelength', 'explode', '@base64', '@uri', '@csv',
         '@tsv', '@html', '@sh', 'tonumber', 'not', '.a as $x | $x', 'reduce .[] as $x (null; . // $x)', '{a: .}', '[.] | length', '..',
         '[..] | length', 'splits(", ")', '@text', 'tojson|length', '[limit(2; .[])]', 'first', 'last', 'nth(0)', 'range(2)',
         '[.[] | select(. != null)]', 'group_by(.)', 'unique_by(.)', 'sort_by(.)', 'min_by(.)', 'max_by(.)', 'transpose', 'combinations',
         'walk(.)', 'tostream', '[tostream] | fromstream(.[])', 'paths(type == "number")', 'del(.[0])', 'to_entries[0]', 'keys_unsorted',
         'add / length', 'floor', 'sqrt', 'pow(.; 2)', 'log', 'exp', 'tojson | test("a")', '"\\(.)"', '.[] as [$a] | $a', '.. |= .',
         'limit(1; .[])', 'error', 'error(.)', 'try error(.) catch .', 'label $f | .[] | ., break $f', 'getpath(["a","b"])', 'setpath(["a"]; 1)',
         'delpaths([["a"]])', 'path(.a)', 'path(..)', '[paths(..)]', 'has(0)', 'in({})', 'inside("abc")', 'contains("a")', 'contains([1])',
         'index("a")', 'rindex("a")', 'indices("a")', 'startswith("a")', 'endswith("a")', 'rtrimstr("a")', 'split(",")', 'join("-")',
         'ascii_upcase', 'implode', '@base64d', '@yaml', '@props', 'key', 'map(key)', 'parent', 'omit(["a"])', 'pick(.a)', 'to_unix',
         'toboolean', 'trim', 'ltrim', 'rtrim', 'abs', 'truncate_stream(1; tostream)', 'fromjson', 'getpath([0])', 'skip(1; .[])',
         'isempty(.[])', 'sub("a";"b")', 'gsub("a";"b")', 'scan("a")', 'match("a")|.offset', 'capture("(?<x>a)")', 'limit(0; .[])',
         'first(empty)', 'until(true; .)', '[while(false; .)]', 'recurse | type', 'recurse(.[]?) | type', 'map(select(.))', 'map(values)',
         'nulls', 'booleans', 'numbers', 'strings', 'arrays', 'objects', 'iterables', 'scalars', 'values', 'isvalid(.a)', 'leaf_paths',
         'sort_keys', 'to_yaml', 'to_json', 'from_json', 'with(.a; . = 1)', 'select(.a) | .a', '[.[]|select(.)]', 'explode|implode',
         'length > 1', '. < 1', '. and true', '. or false', '-(.)', '.a += 1', '.a //= 3', '.[0] = "n"', 'to_entries | map(.key)',
         'to_entries | map(.value)', '[.[] | strings]', '[.[] | tojson]', 'map(tostring)', 'map(tonumber?)', '.a | tostring', '.a | tojson',
         '.a | type', '.a | length', '.[0] | tostring', '.[0] | type', 'tostring | length', 'tojson | explode | length', '@json | length',
         '[.[] | . + 1]?', 'map(. * 2)?', '.a == "12"', '.a == 12', '.a == true', '.a == "true"', '.a == null', '.[0] == 7', '.[0] == "7"',
         'index(",")', 'ascii', 'document_index', 'splitdoc | type', 'env | type', 'now | type', 'input', 'debug', 'stderr', 'halt_error',
         'input_line_number', 'ltrimstr(1)', 'splits', 'getpath(1)', 'significand', 'halt', 'eval(".")', 'builtins|length', 'modulemeta']
QUICK_PROGS = PROGS[:40] + PROGS[40::3]

STR = ["a", "a b", "", "true", "12", "é", "a: b", "x\ny", "0x1F", "~", " a", "😀", "\"", "'", "null", "1e3", "- a", "#a", "a,b", "[a]",
       # a quote followed by what looks like structure: in JSON (and double-quoted flow YAML) the quote is escaped, and
       # a scanner that mis-skips the escape sees `"...": value` / a closing quote where there is none
       "15\": laptop", "a\":b", "x\": [1", "a\\\": b", "\"}", "\", \"b"]
NEWSTR = 6
LEAVES = [("str", s) for s in STR] + [("int", 0), ("int", 7), ("int", -3), ("int", 123456789), ("bool", True), ("bool", False), ("null",)]
KEYS = ["a b", "", "true", "12", "é", "a: b", "0x1F", "~", " a", "null", "a,b", "k\"", "'", "#a", "- a"]


def trees(tier):
    quick = tier == "quick"
    leaves = LEAVES if not quick else [LEAVES[i] for i in (0, 2, 3, 4, 5, 7, 8, 9, 10, 12, 13, len(STR) - NEWSTR, len(STR) - NEWSTR + 1, len(STR) - NEWSTR + 3)] + LEAVES[len(STR):len(STR) + 2] + LEAVES[-3:]
    ts = []
    for a in leaves:
        ts += [a, ("seq", [a]), ("map", [("a", a)])]
    pl = [LEAVES[0], LEAVES[3], LEAVES[4], LEAVES[7], LEAVES[10], ("int", 0), ("int", 7), ("bool", True), ("bool", False), ("null",)]
    if quick:
        pl = [LEAVES[0], LEAVES[4], ("int", 7), ("null",)]
    for a in pl:
        for b in pl:
            ts += [("map", [("a", a), ("b", b)]), ("seq", [a, b]), ("map", [("a", ("seq", [a, b]))]), ("seq", [("map", [("a", a)]), b]),
                   ("map", [("a", ("map", [("b", a)])), ("c", b)])]
    for k in (KEYS if not quick else KEYS[:6]):
        ts.append(("map", [(k, ("int", 1)), ("a", ("str", k))]))
    ts += [("map", []), ("seq", []), ("map", [("a", ("map", [])), ("b", ("seq", []))]), ("seq", [("seq", []), ("map", [])])]
    # keys and strings around the 16/32/64-byte chunk sizes of the vectorised YAML scanners: a `key:` probe that works on
    # 32-byte chunks sees the colon of a 31-character key in the last lane of a chunk and its space in the next one
    for n in ((15, 16, 31, 32, 63, 64) if quick else (14, 15, 16, 17, 30, 31, 32, 33, 47, 62, 63, 64, 65, 95, 96, 127, 128)):
        k = "k" * n
        ts += [("map", [(k, ("int", 1)), ("z", ("int", 2))]), ("map", [("a", ("map", [(k, ("int", 1)), ("z", ("int", 2))]))]),
               ("seq", [("map", [(k, ("str", "v")), ("z", ("int", 2))])]), ("map", [("a", ("str", "v" * n)), ("b", ("seq", [("str", "w" * n)]))])]
    return ts


def scalar(n, style, key=False):
    if n[0] == "int":
        return str(n[1])
    if n[0] == "bool":
        return "true" if n[1] else "false"
    if n[0] == "null":
        return "null"
    s = n[1]
    if style == "alt":
        if ygen.plain_ok(s):
            return s
        if ygen.sq_ok(s):
            return ygen.sq(s)
    return ygen.dq(s)


def leafy(n):
    return n[0] not in ("map", "seq") or not n[1]


def inline(n, style):
    if n[0] == "map":
        return "{" + ", ".join(scalar(("str", k), style, True) + ": " + inline(v, style) for k, v in n[1]) + "}"
    if n[0] == "seq":
        return "[" + ", ".join(inline(v, style) for v in n[1]) + "]"
    return scalar(n, style)


def inline_spaced(n, style):
    """flow style with spaces around every indicator: { "a" : [ 1 , 2 ] } — legal YAML"""
    if n[0] == "map":
        return "{ " + " , ".join(scalar(("str", k), style, True) + " : " + inline_spaced(v, style) for k, v in n[1]) + " }" if n[1] else "{ }"
    if n[0] == "seq":
        return "[ " + " , ".join(inline_spaced(v, style) for v in n[1]) + " ]" if n[1] else "[ ]"
    return scalar(n, style)


def blk(n, ind, style, out):
    pad = " " * ind
    if n[0] == "map" and n[1]:
        for k, v in n[1]:
            ks = scalar(("str", k), style, True)
            if leafy(v):
                out.append(pad + ks + ": " + inline(v, style))
            else:
                out.append(pad + ks + ":"); blk(v, ind + 2, style, out)
    elif n[0] == "seq" and n[1]:
        for v in n[1]:
            if leafy(v):
                out.append(pad + "- " + inline(v, style))
            else:
                out.append(pad + "-"); blk(v, ind + 2, style, out)
    else:
        out.append(pad + inline(n, style))


def renderings(t):
    py = ygen.to_py(t)
    js = json.dumps(py, ensure_ascii=False).encode()
    jp = json.dumps(py, ensure_ascii=False, indent=2).encode()
    res = {}
    for st in ("dq", "alt"):
        out = []; blk(t, 0, st, out)
        res["block-" + st] = ("\n".join(out) + "\n").encode()
        res["flow-" + st] = (inline(t, st) + "\n").encode()
    return [("json-compact", ["-p", "json"], js, "json"), ("json-pretty", ["-p", "json"], jp, "json"),
            ("block-dq", ["-p", "yaml"], res["block-dq"], "yaml-block"), ("block-alt", ["-p", "yaml"], res["block-alt"], "yaml-block"),
            ("flow-dq", ["-p", "yaml"], res["flow-dq"], "yaml-flow"), ("flow-alt", ["-p", "yaml"], res["flow-alt"], "yaml-flow"),
            ("flow-spaced", ["-p", "yaml"], (inline_spaced(t, "alt") + "\n").encode(), "yaml-flow"),
            ("auto-json", [], js, "auto-json"), ("auto-block", [], res["block-dq"], "auto-yaml")]


def jobs_of(case):
    rends, prog = case
    return [(["yq"] + fmt + ["-o", "json", "-I0", prog], d) for _, fmt, d, _ in rends]


def progslug(p):
    return re.sub(r"\s+", "", p)[:40]


def compare(case, run):
    """-> (results, base ok?, {kind: [rendering indices that disagree with the compact-JSON run]})"""
    rends, prog = case
    rs = run.many(jobs_of(case))
    base = rs[0]
    if any(batch.crashed(r[0]) for r in rs):
        return rs, False, {"crash": [i for i, r in enumerate(rs) if batch.crashed(r[0])]}
    try:
        bv = cligen.jlines(base[1]) if base[0] == "0" or base[1] else []
    except BadJson:
        return rs, False, {"json-output-unparseable": [0]}
    bad = {}
    for i in range(1, len(rs)):
        r = rs[i]
        if (r[0], r[1], r[2]) == base:
            continue
        if r[0] != base[0]:
            bad.setdefault("status:" + base[0] + "->" + r[0], []).append(i); continue
        try:
            v = cligen.jlines(r[1])
        except BadJson:
            bad.setdefault("json-output-unparseable", []).append(i); continue
        d = jdiff(bv, v)
        if d:
            bad.setdefault(f"value:{vclass(d[1])}->{vclass(d[2])}", []).append(i); continue
        if r[2].strip() != base[2].strip():
            bad.setdefault("error-text", []).append(i)
    return rs, base[0] == "0", bad


PROBES = [".", "tojson"]


def judge(case, run):
    """-> list of (signature, renderings that disagree with the compact-JSON run).
    A disagreement is first attributed to the input itself: if the identity program (streamed) or `tojson` (materialised)
    already prints different values for the renderings of this tree, every program's disagreement on that tree gets the
    signature of that probe, so one loader-level cause yields one signature instead of one per program."""
    rends, prog = case
    rs, ok, bad = compare(case, run)
    out = []
    if ok:
        out.append(("#info:base-run-succeeds", None))
    if not bad:
        if any(r[1] != rs[0][1] for r in rs[1:]):
            out.append(("#info:equal-values-different-text", None))
        return out
    for probe in PROBES:
        _, _, pbad = compare((rends, probe), run)
        pbad = {k: v for k, v in pbad.items() if k.startswith(("value", "status", "crash"))}
        if pbad:
            for kind, idx in pbad.items():
                out.append((f"input-value:via({probe}):{kind}:" + "+".join(sorted({rends[i][3] for i in idx})), [rends[i][0] for i in idx]))
            return out
    for kind, idx in bad.items():
        out.append((f"{kind}:{progslug(prog)}:" + "+".join(sorted({rends[i][3] for i in idx})), [rends[i][0] for i in idx]))
    return out


def text_differs(case, run):
    rs = run.many(jobs_of(case))
    return any(r[1] != rs[0][1] for r in rs[1:])


def example(case, sig, which):
    rends, prog = case
    return {"kind": "c26", "prog": prog, "renderings": [[n, f, d.hex()] for n, f, d, c in rends], "disagreeing": which,
            "json": cligen.short(rends[0][2], 160), "argv": ["yq", "-p", "<fmt>", "-o", "json", "-I0", prog]}


def rejudge(ex, runner):
    cls = {"json-compact": "json", "json-pretty": "json", "block-dq": "yaml-block", "block-alt": "yaml-block", "flow-dq": "yaml-flow", "flow-alt": "yaml-flow", "flow-spaced": "yaml-flow",
           "auto-json": "auto-json", "auto-block": "auto-yaml"}
    rends = [(n, f, bytes.fromhex(d), cls[n]) for n, f, d in ex["renderings"]]
    return {s for s, _ in judge((rends, ex["prog"]), runner) if not s.startswith("#info:")}


def work(shard, progs):
    part = Part()
    cases = []
    for t in shard:
        rends = renderings(t)
        for p in progs:
            cases.append((rends, p))
    verdicts, njobs = cligen.bulk_judge(cases, jobs_of, judge, "c26", part)
    memo_text = 0
    for i, c in enumerate(cases):
        for sig, which in verdicts[i]:
            if sig.startswith("#info:"):
                part.bump(sig[6:])
                if sig == "#info:equal-values-different-text":
                    part.bump("text-only:" + progslug(c[1]))
                continue
            part.fail(sig, len(c[0][0][2]) * 100 + len(c[1]), example(c, sig, which))
        part.distinct.add(hash((c[0][0][2], c[1], tuple(s for s, _ in verdicts[i]))))
        if i % 997 == 0:
            part.samples.append({"tree_json": cligen.short(c[0][0][2], 80), "program": c[1], "verdict": [s for s, _ in verdicts[i]]})
    part.count("trees-x-programs", inputs=len(shard), trans=njobs, evals=len(cases))
    return part


def selftest_renderings(ts):
    """the YAML emitter of this check must be boring: plain style only under ygen's conservative predicate, and the compact
    JSON rendering must read back (Python json) to the tree"""
    for t in ts:
        py = ygen.to_py(t)
        r = renderings(t)
        if json.loads(r[0][2].decode()) != py or json.loads(r[1][2].decode()) != py:
            raise common.Machinery("JSON rendering self-test failed")


def run(ctx):
    tier = ctx["tier"]
    rep = batch.Report()
    if ctx["replay"]:
        return cligen.replay_sets(rep, ctx, rejudge)
    ts = trees(tier)
    selftest_renderings(ts)
    progs = QUICK_PROGS if tier == "quick" else PROGS
    parts = cligen.shard_run(work, ts, extra=(progs,), nshards=min(len(ts), 64))
    fails, info, jobsample = cligen.merge_parts(rep, parts)
    for name in rep.subspaces:
        rep.subspaces[name]["note"] = "every tree x every program x 9 renderings (compact/pretty JSON, block/flow YAML in two quoting styles, spaced flow YAML, 2 auto-detected)"
    cligen.selftest_sample(rep, jobsample, n=100)
    cligen.confirm_and_report_sets(rep, fails, rejudge)
    textonly = {k[10:]: v for k, v in info.items() if k.startswith("text-only:")}
    rep.extra.update({"cases_whose_base_run_succeeds": info.get("base-run-succeeds", 0),
                      "cases_with_equal_values_but_different_text": info.get("equal-values-different-text", 0),
                      "programs_with_text_only_differences": textonly, "trees": len(ts), "programs": len(progs), "renderings": [r[0] for r in renderings(ts[0])], "program_list": progs})
    rep.sample({"tree": {"a": "12"}, "program": ".a == 12", "renderings": ['{"a":"12"}', 'a: "12"', "{a: '12'}"], "expected": "false from all"})
    return rep.to_json()
