//! C32 — simple-cursor JSON index navigates valid documents exactly.
//!
//! For every J(n) document (+ whitespace variants, + scale families):
//! structural_count / structural_pos(k) / structural_positions() list exactly
//! the bracket, comma and colon bytes outside strings, in order;
//! structural_index(p) maps each back to its ordinal and is None elsewhere;
//! find_close(p) is the matching close for every container start and None at
//! every other position; skip_value(start) is the byte after the token for
//! every value and key; children(p) is Some for containers only and yields
//! bracket positions strictly inside the container that include every
//! immediate child container.
//! Oracle: own scan for structural bytes outside strings (cross-checked against
//! the generator's token tree), generator spans for close / value end.
use engine::*;
use serde_json::{json, Value};
use succinctly::json::SimpleJsonIndex;

#[path = "../jgen.rs"]
mod jgen;

use jgen::{Alphabet, Doc, Kind, Space, Ws, WS};

/// Bracket, comma and colon bytes outside strings (backslash escapes one byte).
fn structural_scan(t: &[u8]) -> Vec<usize> {
    let mut out = vec![];
    let mut in_str = false;
    let mut i = 0;
    while i < t.len() {
        let c = t[i];
        if in_str {
            if c == b'\\' {
                i += 2;
                continue;
            }
            if c == b'"' {
                in_str = false;
            }
        } else if c == b'"' {
            in_str = true;
        } else if matches!(c, b'{' | b'}' | b'[' | b']' | b',' | b':') {
            out.push(i);
        }
        i += 1;
    }
    out
}

/// Number of structural bytes implied by the token tree (oracle cross-check).
fn structural_count_from_tree(d: &Doc) -> usize {
    d.nodes
        .iter()
        .map(|n| match n.kind {
            Kind::Arr => 2 + n.kids.len().saturating_sub(1),
            Kind::Obj => 2 + n.kids.len() / 2 + (n.kids.len() / 2).saturating_sub(1),
            _ => 0,
        })
        .sum()
}

fn sample_points(n: usize, big: bool) -> Vec<usize> {
    if !big || n <= 6000 {
        (0..n + 2).collect()
    } else {
        let mut v = gen::boundaries(&[0, 64, 128, 512, 4096, n / 2, n], n + 1);
        v.extend((0..n).step_by(n / 3000 + 1));
        v.sort_unstable();
        v.dedup();
        v
    }
}

fn check_doc(doc: &Doc, rep: &mut Report, big: bool) {
    let t = &doc.text[..];
    let size = t.len();
    let sp = structural_scan(t);
    assert_eq!(sp.len(), structural_count_from_tree(doc), "oracle self-test: structural scan disagrees with the token tree on {}", show(t));
    let fail = |rep: &mut Report, sig: String, extra: Value| {
        rep.fail(&sig, size, || {
            let mut c = doc.case();
            c["detail"] = extra;
            c
        })
    };
    guard(rep, "PANIC:simple-index", size, || doc.case(), |rep| {
        let si = SimpleJsonIndex::build(t);
        rep.trans(1);
        if si.structural_count() != sp.len() {
            fail(rep, "structural_count".into(), json!({"got": si.structural_count(), "exp": sp.len()}));
        }
        if !big || sp.len() < 20_000 {
            rep.trans(1);
            let got: Vec<usize> = si.structural_positions(t).collect();
            if got != sp {
                let i = got.iter().zip(&sp).position(|(a, b)| a != b).unwrap_or(got.len().min(sp.len()));
                let what = if got.len() < sp.len() && got[..] == sp[..got.len()] {
                    "truncated"
                } else if i < got.len() && t.get(got[i]).is_some_and(|c| !matches!(c, b'{' | b'}' | b'[' | b']' | b',' | b':')) {
                    "non-structural-byte"
                } else {
                    "wrong"
                };
                fail(rep, format!("structural_positions:{what}"), json!({"first_diff": i, "got_len": got.len(), "exp_len": sp.len()}));
            }
        }
        let mut ks = sample_points(sp.len(), big && sp.len() > 3000);
        ks.extend([1usize << 32, (1usize << 32) + 1, usize::MAX]);
        for k in ks {
            rep.trans(1);
            let got = if k > sp.len() + 2 {
                match catch(|| si.structural_pos(k)) {
                    Ok(g) => g,
                    Err(m) => {
                        fail(rep, "PANIC:structural_pos:huge-k".into(), json!({"k": k, "panic": m}));
                        continue;
                    }
                }
            } else {
                si.structural_pos(k)
            };
            if got != sp.get(k).copied() {
                let f = if k >= 1 << 32 { "k>=2^32" } else if k >= sp.len() { "k>=count" } else { "k<count" };
                fail(rep, format!("structural_pos:{f}"), json!({"k": k, "got": got, "exp": sp.get(k)}));
            }
        }
        // structural_index at every position
        let is_struct: std::collections::HashMap<usize, usize> = sp.iter().enumerate().map(|(i, &p)| (p, i)).collect();
        let mut ps = sample_points(t.len(), big);
        if big {
            ps.extend(sp.iter().step_by(sp.len() / 2000 + 1));
        }
        ps.extend([t.len() + 64, usize::MAX]);
        for p in ps {
            rep.trans(1);
            let got = if p > t.len() + 1 {
                match catch(|| si.structural_index(p)) {
                    Ok(g) => g,
                    Err(m) => {
                        fail(rep, "PANIC:structural_index:beyond-len".into(), json!({"p": p, "panic": m}));
                        continue;
                    }
                }
            } else {
                si.structural_index(p)
            };
            let exp = is_struct.get(&p).copied();
            if got != exp {
                let f = match (got, exp) {
                    (None, Some(_)) => "none-at-structural",
                    (Some(_), None) => "some-at-non-structural",
                    _ => "wrong-ordinal",
                };
                fail(rep, format!("structural_index:{f}"), json!({"p": p, "got": got, "exp": exp}));
            }
        }
        // find_close: containers -> end-1; every other position -> None
        let cont: std::collections::HashMap<usize, usize> = doc.nodes.iter().filter(|n| matches!(n.kind, Kind::Arr | Kind::Obj)).map(|n| (n.start, n.end - 1)).collect();
        let mut ps = sample_points(t.len(), big);
        if big {
            let mut cs: Vec<usize> = cont.keys().copied().collect();
            cs.sort_unstable();
            let step = cs.len() / 3000 + 1;
            ps.extend(cs.iter().step_by(step));
            ps.extend(cs.iter().take(300));
            ps.extend(cs.iter().rev().take(300));
        }
        for p in ps {
            rep.trans(1);
            let got = si.find_close(t, p);
            let exp = cont.get(&p).copied();
            if got != exp {
                let f = match (got, exp) {
                    (None, Some(_)) => "none-at-container".to_string(),
                    (Some(_), None) => format!("some-at-non-container:{}", if t.get(p).is_some_and(|c| matches!(c, b'[' | b'{')) { "bracket-in-string" } else { "other" }),
                    (Some(g), Some(e)) => format!("wrong-close:{}", if g < e { "too-early" } else { "too-late" }),
                    _ => unreachable!(),
                };
                fail(rep, format!("find_close:{f}"), json!({"p": p, "got": got, "exp": exp}));
            }
            // children(): Some exactly for containers
            rep.trans(1);
            match (si.children(t, p), exp) {
                (None, None) => {}
                (Some(it), Some(close)) => {
                    if !big || close - p < 4000 {
                        let got: Vec<usize> = it.collect();
                        let ok_inside = got.iter().all(|&q| q > p && q < close && matches!(t[q], b'{' | b'}' | b'[' | b']') && is_struct.contains_key(&q));
                        let sorted = got.windows(2).all(|w| w[0] < w[1]);
                        if !ok_inside || !sorted {
                            fail(rep, "children:position-outside-container-or-not-a-bracket".into(), json!({"p": p, "got": got}));
                        }
                    }
                }
                (None, Some(_)) => fail(rep, "children:none-at-container".into(), json!({"p": p})),
                (Some(_), None) => fail(rep, "children:some-at-non-container".into(), json!({"p": p})),
            }
        }
        // immediate child containers are listed by children()
        for (id, n) in doc.nodes.iter().enumerate() {
            if big && id % 97 != 0 && id > 500 {
                continue;
            }
            if matches!(n.kind, Kind::Arr | Kind::Obj) && (!big || n.end - n.start < 4000) {
                if let Some(it) = si.children(t, n.start) {
                    let got: Vec<usize> = it.collect();
                    for &k in &n.kids {
                        let kn = &doc.nodes[k];
                        if matches!(kn.kind, Kind::Arr | Kind::Obj) && !got.contains(&kn.start) {
                            fail(rep, "children:missing-child-container".into(), json!({"p": n.start, "child": kn.start}));
                        }
                    }
                }
            }
            // skip_value at the start of every value and key token
            rep.trans(1);
            let got = si.skip_value(t, n.start);
            if got != Some(n.end) {
                let mut f = String::from(n.kind.name());
                if n.is_key {
                    f.push_str("-key");
                }
                if n.end == t.len() {
                    f.push_str(":at-eof");
                }
                let how = match got {
                    None => "none".to_string(),
                    Some(g) => format!("end{:+}", (g as i64 - n.end as i64).clamp(-9, 9)),
                };
                fail(rep, format!("skip_value:{f}:{how}"), json!({"start": n.start, "got": got, "exp": n.end}));
            }
        }
        rep.trans(2);
        for p in [t.len(), usize::MAX] {
            match catch(|| si.skip_value(t, p).is_some() || si.find_close(t, p).is_some() || si.children(t, p).is_some()) {
                Ok(false) => {}
                Ok(true) => fail(rep, "skip_value/find_close/children:some-beyond-len".into(), json!({"p": p})),
                Err(m) => fail(rep, "PANIC:skip_value/find_close/children:beyond-len".into(), json!({"p": p, "panic": m})),
            }
        }
    });
}

fn explore(ctx: &Ctx, rep: &mut Report) {
    for a in [Alphabet::full(), Alphabet::reduced(), Alphabet::tiny()] {
        a.selftest();
    }
    let f = |d: &Doc, rep: &mut Report| check_doc(d, rep, false);
    let all: &[&str] = &WS;
    let two: &[&str] = &["", " \n\t\r "];
    let plans: Vec<(&str, Alphabet, usize, &[&str], bool)> = if ctx.quick() {
        vec![
            ("J3/full/uniform-ws", Alphabet::full(), 3, all, false),
            ("J3/reduced/single-gap-ws", Alphabet::reduced(), 3, &[][..], true),
            ("J4/reduced/uniform-ws", Alphabet::reduced(), 4, two, false),
            ("J5/tiny/uniform-ws", Alphabet::tiny(), 5, &[""][..], false),
        ]
    } else {
        vec![
            ("J3/full/uniform-ws", Alphabet::full(), 3, all, false),
            ("J3/full/single-gap-ws", Alphabet::full(), 3, &[][..], true),
            ("J4/full/uniform-ws", Alphabet::full(), 4, &[" "][..], false),
            ("J4/reduced/uniform-ws", Alphabet::reduced(), 4, all, false),
            ("J4/reduced/single-gap-ws", Alphabet::reduced(), 4, &[][..], true),
            ("J5/reduced/uniform-ws", Alphabet::reduced(), 5, two, false),
            ("J6/tiny/uniform-ws", Alphabet::tiny(), 6, &[""][..], false),
        ]
    };
    for (name, alpha, n, uni, single) in plans {
        if ctx.over_budget() {
            rep.caps.push(format!("wall cap reached before sub-space {name}"));
            continue;
        }
        let sp = Space::new(alpha, n);
        let r = jgen::for_each_doc(ctx, name, &sp, uni, single, 11, &f);
        rep.merge(r);
    }
    let fams = jgen::family_list(ctx.quick());
    let wss = [Ws::Uniform(String::new()), Ws::Uniform(" \n\t\r ".into())];
    let mut r = par_range_in(ctx, "families", (fams.len() * wss.len()) as u64, 1, |i, rep| {
        let (name, p) = fams[i as usize / wss.len()];
        let d = jgen::family(name, p, &wss[i as usize % wss.len()]);
        rep.input();
        rep.distinct(&("family", name, p));
        check_doc(&d, rep, true);
    });
    r.mark_exhaustive("families", "every (family, parameter) x 2 whitespace patterns; all positions / ordinals when the document has <= 6000 bytes, else boundary positions + a fixed stride + (strided) every container");
    rep.merge(r);
    rep.sample(|| {
        let sp = Space::new(Alphabet::full(), 3);
        let d = sp.doc(sp.total() - 77, &Ws::Uniform(" ".into()));
        json!({"doc": show(&d.text), "structural": structural_scan(&d.text)})
    });
    rep.extra.insert("families".into(), json!(fams.iter().map(|(n, p)| format!("{n}({p})")).collect::<Vec<_>>()));
    rep.extra.insert(
        "children_note".into(),
        json!("SimpleJsonIndex::children() yields every bracket byte (opens and closes, any depth) strictly inside the container, not only the immediate children its doc comment mentions; C32's statement does not cover children(), so only containment, order and presence of immediate child containers are checked"),
    );
}

fn replay(case: &Value, rep: &mut Report) {
    let d = jgen::regen(&case["doc"]);
    let big = case["doc"].get("family").is_some();
    let r = std::thread::scope(|s| {
        std::thread::Builder::new()
            .stack_size(256 << 20)
            .spawn_scoped(s, || {
                let mut r = Report::new();
                check_doc(&d, &mut r, big);
                r
            })
            .unwrap()
            .join()
            .unwrap()
    });
    rep.merge(r);
}

fn main() {
    drive("C32", explore, replay);
}
