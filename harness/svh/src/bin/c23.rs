//! C23 — the library evaluator and the generic (CLI) evaluator agree on every
//! program of the bounded grammar.
//!
//! S2 over programs x inputs, S5 between the two evaluators. Every program of
//! P(d) is parsed once and run on each of the 19 inputs through
//! `jq::eval::<_, JqSemantics>` and `jq::eval_generic::eval_with_cursor`; the
//! observation is (outputs as JSON text, terminal in {end, error(message),
//! break(label), halt(code)}). Lazy results are materialised through their public
//! paths (see jqgen.rs). A disagreement is attributed to its minimal sub-program
//! before a signature is computed, so that one root cause gives one signature.
use engine::*;
use serde_json::{json, Value};
use succinctly::jq::{self, Expr};

#[path = "../jqgen.rs"]
mod jqgen;
use jqgen::{parse_json, run_full_doc, run_generic_doc, veq, veq_ordered, Doc, Obs, Term, V};

// ------------------------------------------------------------ the grammar --

const INPUTS: [&str; 19] = [
    "null",
    "true",
    "0",
    "-1",
    "1.5",
    "\"\"",
    "\"a\"",
    "\"a,b\\u00e9\"",
    "[]",
    "[1,2,3]",
    "[[1],{\"a\":2},\"x\",null]",
    "{}",
    "{\"a\":1,\"b\":[1,2]}",
    "{\"a\":{\"b\":null}}",
    "{\"a\":1,\"a\":2}",
    "[1e17,-0,9007199254740993,0.1]",
    "[\"b\",\"a\",\"a\"]",
    "[{\"a\":2},{\"a\":1}]",
    // added to the 18 inputs of the design: keys out of order (without it `keys` and `keys_unsorted`,
    // sorted and unsorted object printing etc. are indistinguishable on every input)
    "{\"b\":[1,2],\"a\":1}",
];

/// Nullary builtins and path/literal atoms (space separated).
const NULLARY: &str = "type isnull isboolean isnumber isstring isarray isobject values nulls booleans numbers strings arrays objects iterables scalars normals finites length utf8bytelength keys keys_unsorted empty not add any all flatten sort reverse unique min max floor ceil round sqrt fabs abs trunc log exp exp2 exp10 log2 log10 sin cos tan asin acos atan sinh cosh tanh asinh acosh atanh explode implode to_entries from_entries tojson fromjson tonumber tostring toboolean ascii_downcase ascii_upcase ltrim rtrim trim first last transpose tostream paths leaf_paths recurse isnan isinfinite isnormal isfinite infinite nan null true false error todate fromdate gmtime todateiso8601 fromdateiso8601 combinations tojsonstream toarray ascii significand logb gamma frexp modf nearbyint @base64 @base64d @base32 @base32d @uri @urid @csv @tsv @html @sh @json @text . .. .[] .[]? .a .a? .b .[0] .[-1] .[1:] .[:1] .[1:2] .[:-1] .[-2:] .[\"a\"] .a.b .a[0] .a[]? -(.)";

/// Everything with arguments / operators. One entry per line.
const COMPOSITE: &[&str] = &[
    "has(\"a\")", "has(0)", "has(null)", "in({})", "in([])", "in({\"a\":1})", "select(.)", "map(.)", "map_values(.)", "map(.+1)", "map_values(empty)",
    "path(.a)", "path(..)", "path(.[0])", "[paths]", "[leaf_paths]", "paths(type == \"number\")", "del(.a)", "del(.[0])", "del(.[])", "del(.[1:])",
    "getpath([\"a\"])", "getpath([\"a\",\"b\"])", "getpath([0])", "getpath([\"a\",0])", "getpath(1)", "getpath([\"a\"])?",
    "setpath([\"a\"];1)", "setpath([0];1)", "setpath([];1)", "setpath(1;1)", "setpath([-1];1)", "delpaths([[\"a\"]])", "delpaths([[0]])", "delpaths(1)", "to_entries|map(.key)", "with_entries(.)", "with_entries(.value|=.)",
    "contains(.)", "inside(.)", "contains(\"a\")", "contains([1])", "contains({a:1})", "inside(\"abc\")", "inside([1,2,3])",
    "startswith(\"a\")", "endswith(\"a\")", "ltrimstr(\"a\")", "rtrimstr(\"a\")", "ltrimstr(1)", "ltrimstr(\"\")", "trimstr(\"a\")", "join(\",\")", "join(1)", "join(null)",
    "split(\",\")", "split(1)", "split(\",\";null)", "index(\"a\")", "rindex(\"a\")", "indices(\"a\")", "indices(1)", "index(1)", "index([1])", "indices([1,2])", "rindex(1)", "indices(\"\")",
    "limit(1;.[])", "limit(0;.[])", "limit(-1;.[])", "first(.[])", "last(.[])", "first(.[]?)", "first(empty)", "nth(0)", "nth(1;.[])", "nth(-1)", "nth(0;empty)", "skip(1;.[])", "isempty(.[])", "isempty(empty)",
    "range(3)", "range(1;3)", "range(-1)", "range(0;1;0)", "range(\"a\")", "range(0;10;3)", "range(5;0;-2)",
    "sort_by(.)", "group_by(.)", "unique_by(.)", "min_by(.)", "max_by(.)", "min_by(.a)", "max_by(.a)", "group_by(.a)", "unique_by(.a)", "sort_by(.a)", "sort_by(.a, .b)", "sort_by(-.)", "unique_by(length)",
    "any(.)", "all(.)", "any(.[];.)", "all(.[];.)", "any(not)", "flatten(1)", "flatten(0)", "flatten(-1)", "flatten(\"a\")", "add(.[])", "add(empty)",
    "pow(.;2)", "pow(2;.)", "atan2(.;1)", "drem(.;2)", "ldexp(.;2)", "scalb(.;2)", "fmin(.;1)", "fmax(.;1)", "fma(.;2;1)",
    "walk(.)", "walk(if type == \"number\" then . + 1 else . end)", "recurse(.[]?)", "recurse(.a?; . != null)", "recurse(.[]?; . != null)", "bsearch(1)", "bsearch(\"a\")", "bsearch(null)",
    "error(\"x\")", "error(null)", "error({})", "error(.)", "try error(.) catch .", "try error(\"x\") catch .", "try error catch .", "try error({a:1}) catch .a", "[.[]|try error(.) catch .]", "try error(\"\\(.)\") catch .", ".a?", "(.a)?", "[.[]|.+1]?", "try (.[] | error(\"e\")) catch .", "[(1, error(\"x\"), 3)]", "1, error(\"x\"), 3", "(1, error(\"x\"))?", "try (1, error(\"x\"), 3) catch .", "try error(\"x\")", ".[] | try error(.) catch .",
    "pick(.a)", "pick(.[0])", "pick(.a.b)", "truncate_stream(1;tostream)", "fromstream(tostream)", "[tostream]|fromstream(.[])", "tostream|tojson", "fromstream(1|truncate_stream(tostream))", "getpath(paths)", "[paths(..)]", "limit(3;paths)",
    ". + .", ". - .", ". * .", ". / .", ". % .", ". == .", ". != .", ". < .", ". <= .", ". > .", ". >= .", ". and .", ". or .", ". // 1", ". // empty", "empty // 1", "(.[]?) // 1", "(false, null, 2) // 3",
    ". + 1", "1 + .", ". - 1", ". * 2", ". / 2", ". / 0", ". % 2", ". % 0", "5 % .", "1 / .", ". + \"a\"", ". + [1]", ". + {\"z\":1}", ". + null", "null + .", ". - [1]", ". * {\"a\":{\"c\":1}}", ". * 0", ". * 1.5", ". / \",\"", ". == null", ". == 1", ". < 1", ". > \"a\"", ". == [1,2,3]", ". < []", ". < {}", "[.] < [1]", "not | not", ". and true", ". or false", "true and .", "false or .", "(true, false) and (true, false)", "(true, false) or (true, false)",
    ". as $x | $x", ". as $x | [$x, $x]", ". as [$a, $b] | [$b, $a]", ". as {a: $a} | $a", ". as {$a} | $a", ". as [$a] ?// $a | $a", ".[] as $x | $x", ". as $x | .[]? | [$x, .]", "[.[] as [$a] | $a]?",
    "reduce .[] as $x (0; . + $x)", "reduce .[] as $x (null; . + $x)", "reduce .[]? as $x ([]; [$x] + .)", "reduce empty as $x (0; . + 1)", "foreach .[] as $x (0; . + $x)", "foreach .[] as $x (0; . + 1; [$x, .])", "foreach .[]? as $x (0; . + 1)", "reduce range(3) as $i (.; .)", "[foreach range(3) as $i (0; . + $i)]",
    "if . then 1 else 2 end", "if . then 1 end", "if . == null then \"n\" elif . == 0 then \"z\" else \"o\" end", "if (true, false) then 1 else 2 end", "if .a then .a else . end", "if empty then 1 else 2 end",
    "label $out | 1, break $out", "label $out | .[] | if . == 2 then break $out else . end", "label $f | (1, 2, break $f, 3)", "[label $out | .[]? | ., break $out]", "first(range(10))", "label $a | label $b | 1, break $a, 2",
    "[.[] | . * 2]", "{a: .}", "{(.): 1}", "{a: .a}", "{a}", "{\"a\": 1, \"b\": .}", "{a: (1, 2)}", "{(\"a\", \"b\"): 1}", "{a: .[]?}", "{\"x\\(.)\": 1}", "{$__loc__}", "[., .]", "[.[]?]", "[..]", "[.[]?, 1]", "[]", "{}", "[empty]", "[.[]? | select(. != null)]", "[.[] | values]",
    "\"a\\(.)\"", "\"\\(.)\"", "\"\\(1 + 2)\\(.)\"", "@json \"x\\(.)\"", "@text \"\\(.)\"", "@base64 \"\\(.)\"", "@csv \"\\(.)\"", "@html \"<\\(.)>\"", "@uri \"?q=\\(.)\"", "@sh \"echo \\(.)\"",
    "to_entries | from_entries", "tojson | fromjson", "tojson|fromjson|tojson", "tojson|length", "keys|length", "length|tostring", "ascii_downcase|ascii_upcase", "ltrimstr(\"a\")|rtrimstr(\"a\")", "trunc|tostring", "[.[]|tostring]", "[.[]|tojson]", "[.[]|type]", "map(select(.))", "[.[]|numbers]", "..|numbers", "[..|strings]", "[.[]?|length]", "map(length)", "map(type)", "map(keys)", "map(.a?)", "map(.[0]?)", "map(tostring)", "map(tojson)", "keys_unsorted|map(.)", "keys|map(.)", "keys_unsorted|length", "keys_unsorted|first", "keys_unsorted|.[0]", "keys|.[0]", "keys|last", "keys_unsorted|.[]", "map(.)|map(.)", "map(.+1)|map(.*2)", "map(error(\"m\"))", "map(., .)", "map(empty)", "map(select(. == 1))", "[.[]|.a?]",
    // slices whose bounds are *computed* (not literal integers) take a different code path from static slices:
    // negative / fractional / length-derived bounds, on arrays and on strings with multi-byte characters
    ".[(0-1):]", ".[:(0-1)]", ".[(0-2):(0-1)]", ".[(0-3):]?", ".[-1.5:]", ".[:-1.5]", ".[(1):]", ".[:(2)]", ".[(length-1):]?", ".[(length/2|floor):]?",
    ".[-(1):]", ".[(1,2):]", ".[:(1,-1)]", ".[(0-1):] = [9]", "del(.[(0-1):])", "path(.[(0-1):])", ".a[(0-1):]?", "\"h\u{e9}llo w\u{f6}rld\u{1f600}\" | .[(0-3):]", "\"h\u{e9}llo\" | .[:(0-2)]",
    "(.a, .b)", ".[\"a\",\"b\"]?", ".[0,1]?", ".[\"a\"]?", ".[null]", ".[\"a\":]?", ".[1.5]?", ".[-5]?", ".[5]", ".[1e17]?", ".[:2.5]?", ".[null:2]?", ".[.[0]?]?", ".a.b.c?", ".a[1:]?", "..?", ".[]?.a?", ".[0][0]?", ".a[\"b\"]?",
    ".a = 1", ".a |= 2", ".[0] = 1", ".[] |= 1", ".a += 1", ".a -= 1", ".a *= 2", ".a /= 2", ".a %= 2", ".a //= 3", ".[0] += 1", ".[]? += 1", ".a.b = 1", ".a.b |= 1", ".[1:] = [9]", ".[5] = 1", ".[-1] = 9", ".[-9] = 9", ".a = (1, 2)", "(.a, .b) = 1", "(.a, .b) |= 1", ".[] |= empty", ".a |= empty", ".. = 1", ".. |= .", ".[0] |= . + 1", "(.[] | select(. == 2)) = 20", "(.[]? | select(type == \"number\")) |= . + 1", ".a = .b", ".a |= .b?", ". = 1", ". |= 2", "to_entries |= .", ".[\"a\"] = 1", "getpath([\"a\"]) = 3", "first(.[]?) = 7", "paths = 1", "(.a | .b) = 1", ".a[0] = 1", ".a[1:] = [5]", "del(.a, .b)", "del(.[0, 1])", "del(.a.b)", "del(..)", "del(.)", "del(.[]?|select(. == 1))", "del(.[-1])", "del(.a[0])", "delpaths([paths])", "delpaths([[]])", "to_entries",
    "#secondary",
    "limit(3;repeat(.))", "[limit(3;repeat(.))]", "[limit(3;recurse)]", "first(repeat(.))", "until(true;.)", "[while(false;.)]", "[limit(3; while(true; .))]", "[limit(3; until(false; .))]", "[limit(2; 1, 2, 3)]", "limit(1; error(\"x\"))", "limit(1; 1, error(\"x\"))", "first(1, error(\"x\"))", "[limit(3; repeat(1))]", "[limit(5; recurse(.[]?))]",
    "ascii", "implode|explode", "explode|implode", "[1,2]|implode", "[65, 233, 128512]|implode", "[-1]|implode", "[1114112]|implode", "[55296]|implode", "\"a\"|explode", "tojson|explode|implode|fromjson", "\"x\" * 3", "\"x\" * 0", "\"x\" * -1", "\"abc\" | .[1:]", "\"a\u{e9}\u{1f600}\" | .[1:2]", "\"abc\" | .[0]?", "\"a,b\" / \",\"", "\"abc\" | test(\"b\")?", "\"\" | ascii_downcase", "[.[]?|ascii_downcase?]", "\"a\" | ltrimstr(\"a\", \"b\")", "\"1\" | tonumber", "\"x\" | tonumber?", "\"1e1000\" | tonumber", "\"nan\" | tonumber", "\" 1\" | tonumber?", "\"0x10\" | tonumber?", "[1, \"1\"] | map(tonumber)", "\"[1\" | fromjson?", "\"nan\" | fromjson", "\"{\\\"a\\\":1,\\\"a\\\":2}\" | fromjson", "\"1 2\" | fromjson?", "\"\" | fromjson?", "nan | tojson", "infinite | tojson", "-infinite | tostring", "[nan] | sort", "[nan, 1] | min", "nan < nan", "nan == nan", "[nan] == [nan]", "{\"a\":nan} | .a | isnan", "infinite | floor", "nan | floor?", "1e1000", "-1e1000", "1e-1000", "100000000000000000000", "9007199254740993", "9007199254740993 + 0", "9007199254740993 | tostring", "[9007199254740993] | tojson", "1.0", "1.10", "-0", "-0 | tostring", "0 * -1", "[-0] | tojson", "1e2", "1E+2", "0.1 + 0.2", "3 % 2", "-3 % 2", "5 % -2", "5.9 % 2.1", "1 % 0.4?", "(1,2) % (1,2)", "9223372036854775807 + 1", "-9223372036854775808 - 1", "9223372036854775807 * 2", "9223372036854775807 | . + 0", "-9223372036854775808 | abs", "-9223372036854775808 | length", "9223372036854775807 | tostring", "1e18 | tostring", "1e19 | tostring", "1e17 | tostring", "123456789012 | tostring", "1.5e300 * 1.5e300", "[1,2,3] | .[1e18]?", "[1,2,3] | .[-1e18]?", "[1,2,3] | .[1.7]", "[1,2,3] | .[-1.2]?", "[1,2,3] | .[1:1e18]", "[1,2,3] | .[-1e18:2]", "[1,2,3] | .[nan]?", "[1,2,3] | .[nan:2]?", "[1,2,3] | .[:nan]?", "[1,2,3] | has(nan)?", "[1,2,3] | has(-1)", "[1,2,3] | has(1.5)", "[1,2,3] | has(3)", "{\"a\":1} | has(\"a\", \"b\")", "[1,2,3] | del(.[0,2])", "[1,2,3] | del(.[1:])", "[1,2,3] | del(.[-1:])", "[1,2,3] | del(.[nan])?", "[1,2,3] | to_entries", "[1,2,3] | .[1:] = [\"x\"]", "[1,2,3] | .[2:1] = [\"x\"]", "[1,2,3] | .[1:] |= map(. * 2)", "[1,2,3] | .[-1:] = []", "[1,2,3] | .[10:] = [1]", "null | .[1:] = [1]", "null | .[2] = 1", "null | .a.b.c = 1", "null | .[\"a\"][0] = 1", "[1,2,3] | setpath([-1]; 9)", "[1,2,3] | setpath([-3]; 9)", "[1,2,3] | setpath([-4]; 9)?", "[1,2,3] | setpath([3]; 9)", "[1,2,3] | setpath([5]; 9)", "[1,2,3] | getpath([-1])", "[1,2,3] | getpath([-4])", "[1,2,3] | getpath([3])", "[1,2,3] | delpaths([[-1]])", "[1,2,3] | delpaths([[-4]])", "[1,2,3] | delpaths([[0],[1]])", "[1,2,3] | delpaths([[1],[0]])", "[[1,2],[3]] | delpaths([[0,0],[0]])", "{\"a\":[1,2]} | delpaths([[\"a\",0],[\"a\"]])", "{\"a\":1} | setpath([\"a\",\"b\"]; 1)?", "{\"a\":1} | setpath([0]; 1)?", "[1] | setpath([\"a\"]; 1)?", "{\"a\":null} | setpath([\"a\",\"b\"]; 1)", "{\"a\":null} | setpath([\"a\",0]; 1)", "{\"a\":1} | getpath([\"a\",\"b\"])?", "{\"a\":1} | getpath([\"b\",\"c\"])", "null | getpath([\"a\",0,\"b\"])", "{\"a\":1} | paths", "{\"a\":1} | path(.a[0]?)", "{\"a\":1} | path(.b)", "{\"a\":1} | [path(..)]", "[[1]] | path(.[0][0])", "[[1]] | path(.[0] | .[0])", "[[1]] | path(first(.[]))", "[1,2] | path(.[1:])", "[1,2] | path(.[-1])", "{\"a\":1} | path(getpath([\"a\",\"b\"]))", "{\"a\":1} | path(1)?", "{\"a\":1} | path(. + 1)?", "{\"a\":1} | path(if .a then .a else .b end)", "{\"a\":1} | path(.a // .b)", "{\"a\":null} | path(.a // .b)", "{\"a\":1} | path(.a, .b)", "{\"a\":[1]} | path(.a | select(.[0] == 1))", "{\"a\":1} | path(empty)", "{\"a\":1} | [paths(. == 1)]", "{\"a\":1} | path(recurse)", "{\"a\":1} | path(.. | select(type == \"number\"))", "{\"a\":1} | path(.a | . as $x | $x)?", "{\"a\":1} | path(.a | tostring)?", "{\"a\":{\"b\":1}} | path(.a | .b)", "{\"a\":{\"b\":1}} | to_entries", "{\"a\":{\"b\":1}} | with_entries(.key |= ascii_upcase)", "{\"a\":1} | with_entries(select(.value > 1))", "{\"a\":1} | with_entries(.value += 1)", "[{\"key\":\"a\",\"value\":1}] | from_entries", "[{\"k\":\"a\",\"v\":1}] | from_entries", "[{\"name\":\"a\",\"Value\":1}] | from_entries", "[{\"key\":1,\"value\":1}] | from_entries", "[{\"key\":null}] | from_entries", "[{\"key\":false}] | from_entries", "[{\"key\":true,\"value\":2}] | from_entries?", "[{\"value\":2}] | from_entries?", "[[\"a\",1]] | from_entries?", "[null] | from_entries?", "[{\"key\":\"a\",\"value\":1},{\"key\":\"a\",\"value\":2}] | from_entries",
    "[3,1,2] | sort", "[3,1,2] | sort_by(-.)", "[[2,1],[1,2],[1]] | sort", "[{\"b\":1},{\"a\":2},{\"a\":1,\"b\":0}] | sort", "[null,true,false,0,\"a\",[],{}] | sort", "[{},[],\"a\",0,false,true,null] | sort", "[1,1.0,1.5,\"1\"] | unique", "[[1],[1.0]] | unique", "[\"b\",\"a\",\"B\",\"\u{e9}\",\"aa\"] | sort", "[1,2,3,4] | group_by(. % 2)", "[1,2,3,4] | unique_by(. % 2)", "[{\"a\":1,\"b\":2},{\"a\":1,\"b\":1}] | sort_by(.a)", "[{\"a\":1,\"b\":2},{\"a\":1,\"b\":1}] | group_by(.a)", "[{\"a\":1,\"b\":2},{\"a\":1,\"b\":1}] | min_by(.a)", "[{\"a\":1,\"b\":2},{\"a\":1,\"b\":1}] | max_by(.a)", "[{\"a\":1,\"b\":2},{\"a\":1,\"b\":1}] | unique_by(.a)", "[] | min", "[] | max_by(.a)", "[] | add", "[[1],[2]] | add", "[\"a\",\"b\"] | add", "[{\"a\":1},{\"b\":2}] | add", "[1,null,2] | add", "[null] | add", "[1,\"a\"] | add?", "[[1,[2]],[[3]]] | flatten", "[[1,[2]],[[3]]] | flatten(1)", "[1,[2,[3,[4]]]] | flatten(2)", "[[1,2],[3,4]] | transpose", "[[1],[2,3]] | transpose", "[[],[1]] | transpose", "[1,[2]] | transpose?", "[[1,2],[3,4]] | combinations", "[[1,2],[]] | combinations", "[] | combinations", "[[1,2]] | combinations", "[0,1] | combinations(2)", "[1,2] | combinations(0)", "[[1,2],[3,4]] | [combinations] | length", "[1,2,3] | any(. > 2)", "[1,2,3] | all(. > 0)", "[] | any", "[] | all", "[null, 1] | any", "[true, false] | all", "[1,2,3] | IN(2)", "2 | IN(1,2,3)", "[1,2,3] | IN([1,2,3], [4])", "IN(.[]?; 1, 2)", "[1,2,3] | index(2)", "[1,2,1] | indices(1)", "[1,2,1,2] | indices([1,2])", "[1,2,1] | rindex(1)", "\"abcb\" | indices(\"b\")", "\"abcb\" | index(\"b\")", "\"abcb\" | rindex(\"b\")", "\"a\u{e9}b\u{e9}\" | indices(\"\u{e9}\")", "\"aaa\" | indices(\"aa\")", "[] | indices([])", "[1] | indices([])", "[1,2,3] | bsearch(2)", "[1,2,3] | bsearch(0)", "[1,2,3] | bsearch(4)", "[1,3] | bsearch(2)", "[] | bsearch(1)", "[3,1] | bsearch(1)", "[1,2,3] | inside([1,2,3,4])", "\"a\" | inside(\"abc\")", "{\"a\":1} | inside({\"a\":1,\"b\":2})", "[\"abc\"] | contains([\"b\"])", "{\"a\":[1,2]} | contains({\"a\":[1]})", "\"a\\u0000b\" | contains(\"b\")", "1 | contains(1)", "1 | contains(\"a\")?", "[1,[2]] | contains([[2]])", "\"abc\" | startswith(\"ab\")", "\"abc\" | startswith(1)?", "1 | startswith(\"a\")?", "\"abc\" | endswith(\"bc\")", "\"abc\" | ltrimstr(\"ab\")", "\"abc\" | rtrimstr(\"bc\")", "\"abc\" | rtrimstr(\"abc\")", "1 | ltrimstr(\"a\")", "\" a \" | trim", "\" a \" | ltrim", "\" a \" | rtrim", "1 | trim?", "\"\\u00a0a\" | trim", "\"a,b\" | split(\",\")", "\"abc\" | split(\"\")", "\"\" | split(\",\")", "\"\" | split(\"\")", "\"a,b\" | split(\",\"; null)?", "\"a,b\" | split(\", \")", "[\"a\",1,null,true] | join(\"-\")", "[] | join(\",\")", "[[1]] | join(\",\")?", "[\"a\"] | join(1)?", "[\"a\",\"b\"] | join(null)?", "\"abc\" | ascii_downcase", "\"ABC\u{c9}\" | ascii_downcase", "\"abc\u{e9}\" | ascii_upcase", "1 | ascii_downcase?", "\"abc\" | utf8bytelength", "\"\u{e9}\" | utf8bytelength", "[1] | utf8bytelength?", "\"\u{e9}\" | length", "\"\u{1f600}\" | length", "{\"a\":1,\"b\":2} | length", "null | length", "true | length?", "-1.5 | length", "\"abc\" | explode", "\"\u{1f600}\" | explode", "\"abc\" | @base64", "\"YWJj\" | @base64d", "\"YWJ\" | @base64d", "\"YQ==\" | @base64d", "\"YQ\" | @base64d", "\"!!!\" | @base64d?", "\"/w==\" | @base64d", "\"a b&c\" | @uri", "\"\u{e9}\" | @uri", "\"-_.~\" | @uri", "\"a%20b\" | @urid", "\"%zz\" | @urid?", "\"%e9\" | @urid?", "[1,\"a\",null,true] | @csv", "[1,\"a\\\"b\",null] | @csv", "[[1]] | @csv?", "[1,\"a\\tb\",null] | @tsv", "[\"a\\\\b\\n\\r\"] | @tsv", "[{}] | @tsv?", "\"<&>'\\\"\" | @html", "[1,\"a b\"] | @sh", "\"it's\" | @sh", "{} | @sh?", "[[1]] | @sh?", "1 | @text", "[1,\"a\"] | @text", "[1,\"a\"] | @json", "\"\\u007f\\u0000\\u001f\" | @json", "\"\\u007f\\u0000\\u001f\" | tojson", "\"\u{e9}\u{1f600}\" | tojson", "{\"a\":[1,2,{\"b\":null}]} | tojson", "{\"a\":[1,2,{\"b\":null}]} | tostring", "\"abc\" | tostring", "null | tostring", "1.0 | tostring", "1.5 | tojson", "[1.0, 1e2, 1e-5, 1.5e10] | tojson", "[1.0, 1e2, 1e-5, 1.5e10] | map(tostring)", "[1.0, 1e2, 1e-5, 1.5e10] | map(. + 0)", "1e-5 | . * 1", "0.00001 | tostring", "1e-7 | . + 0 | tostring", "123456789012345678 | . + 0", "1.7976931348623157e308 | . * 10 | tostring", "3.0 | floor | tostring", "3.7 | trunc", "-3.7 | trunc", "-3.5 | round", "2.5 | round", "-0.5 | round | tostring", "-0.5 | ceil | tostring", "4 | sqrt", "-1 | sqrt | isnan", "0 | log", "-1 | log | isnan", "8 | log2", "1000 | log10", "2 | exp10", "3 | exp2", "[2, 10] | pow(.[0]; .[1])", "pow(0; 0)", "pow(-8; 1/3) | isnan", "pow(2; 0.5)", "1 | atan2(.; 0)", "0 | significand", "8 | significand", "8 | logb", "0 | logb", "8 | frexp", "0 | frexp", "3.5 | modf", "-3.5 | modf", "infinite | modf", "5 | gamma", "5 | lgamma", "5 | tgamma", "5 | lgamma_r", "2.5 | nearbyint", "3.5 | rint", "1.5 | trunc", "7 | drem(.; 2)", "5 | ldexp(.; 2)", "5 | scalb(.; 2)", "5 | scalbln(.; 2)", "1 | cbrt", "8 | cbrt", "10 | floor | . / 3", "10 / 3 | floor", "1 / 3", "1 / 3 | . * 3", "7 / 2", "6 / 2", "6 / 2 | tostring", "[.[]? | numbers | . / 2]", "[.[]? | numbers | . * 1.0]", "[.[]? | numbers | floor]", "[.[]? | numbers | tostring]", "[.[]? | numbers | tojson]", "[.[]? | numbers | . + 0]", "[.[]? | numbers | -(.)]", "[.[]? | numbers | . == 0]", "[.[]? | numbers] | sort", "[.[]? | numbers] | unique", "[.[]? | numbers] | min", "[.[]? | numbers] | add", "[.[]? | numbers | abs]", "[.[]? | numbers | length]", "[.[]? | numbers | round]", "[.[]? | numbers | @text]", "[.[]? | numbers | @json]", "[.[]? | numbers] | @csv", "[.[]? | numbers] | join(\",\")", "[.[]? | numbers | [.] | implode?]", "[.[]? | numbers | . % 7]?", "[.[]? | numbers | 7 % .]?", "[.[]? | numbers | isnormal]", "[.[]? | numbers | isinfinite]", "[.[]? | numbers | significand]", "[.[]? | numbers | trunc]", "[.[]? | numbers | sqrt | isnan]", "[.[]? | numbers | todate?]", "[.[]? | numbers | gmtime?]", "[.[]? | numbers | toboolean?]", "[.[]? | tostring | tonumber?]", "[.[]? | tojson | fromjson]",
    "1700000000 | todate", "1700000000 | gmtime", "1700000000.5 | gmtime", "1700000000 | gmtime | todate", "1700000000 | todateiso8601", "\"2023-11-14T22:13:20Z\" | fromdate", "\"2023-11-14T22:13:20Z\" | fromdateiso8601", "\"2023-11-14\" | fromdate?", "1700000000 | strftime(\"%Y-%m-%dT%H:%M:%SZ\")", "1700000000 | strftime(\"%A %B %j %e\")", "[2023,10,14,22,13,20,2,317] | todate", "[2023,10,14,22,13,20.5,2,317] | strftime(\"%S\")", "\"x\" | todate?", "-1 | todate", "1e12 | todate?", "253402300800 | todate?", "1700000000 | dateadd(\"seconds\"; 1)?", "1700000000 | date?", "1700000000 | todate | fromdate",
    "splits(\",\")", "[splits(\"a\")]", "splits(\"a\";\"g\")", "test(\"a\")", "test(\"A\";\"i\")", "test(\"a\";\"x\")", "test(\"(\")?", "[match(\"a\")]", "[match(\"a\";\"g\")]", "[match(\"\";\"g\")]", "match(\"(a)(b)?\")", "[match([\"a\",\"g\"])]", "capture(\"(?<x>a)\")", "[capture(\"(?<x>a)\";\"g\")]", "[scan(\"a\")]", "[scan(\"(a)(,)\")]", "scan(\"A\";\"i\")", "sub(\"a\";\"b\")", "sub(\"(?<x>a)\";\"\\(.x)\\(.x)\")", "gsub(\"a\";\"b\")", "gsub(\"\";\"-\")", "gsub(\"a\";\"b\";\"i\")", "sub(\"a\";\"b\";\"g\")", "gsub(\"(?<l>[a-z])\";\"\\(.l|ascii_upcase)\")", "sub(\"a\";\"x\",\"y\")", "[gsub(\"a\";\"x\",\"y\")]", "split(\",\";\"g\")", "split(\"a|,\";null)", "ascii_downcase | test(\"a\")", "\"aXbxc\" | [splits(\"x\";\"i\")]", "\"abc\" | [match(\"b\").offset]", "\"a\u{e9}b\" | [match(\"b\").offset]", "\"aaa\" | [match(\"a*?\";\"g\").length]", "\"abc\" | sub(\"(?<x>b)\";\"[\\(.x)]\")", "\"abc\" | gsub(\"\";\"-\")", "\"abc\" | gsub(\"$\";\"!\")", "\"abc\" | gsub(\"^\";\"!\")", "\"abAB\" | gsub(\"a\";\"x\";\"gi\")", "\"test\" | test(\"T\";\"ix\")", "\"a.b\" | split(\".\";null)", "\"a1b22\" | [scan(\"[0-9]+\")]", "\"a1b22\" | [scan(\"([a-z])([0-9]+)\")]", "\"xyz\" | capture(\"(?<a>x)(?<n>q)?\")", "\"xyz\" | [match(\"(?<a>x)(q)?\").captures[].string]", "\"abc\" | test(\"B\";null)", "\"abc\" | test([\"B\",\"i\"])", "\"abc\" | test(\"b\";\"q\")?", "1 | test(\"a\")?", "\"a\" | test(1)?",
    "ltrimstr(\"a\") | ascii_upcase", "getpath([\"a\"]) | type", "tojson | test(\"1\")", "tostream | select(length == 2)", "[tostream] | length", "[tostream | select(length == 2) | .[0] | join(\".\")?]", "tojsonstream?", "[., 1] | tojsonstream?", "fromjsonstream?", "input_filename", "$__prog_args?", "get_search_list?", "splits", "ltrimstr", "error(\"\\(.)\") | .", "getpath([]) | .", "env.HOME | type", "have_literal_numbers", "have_decnum", "@base32d?", "abs", "toarray", "builtins | length > 0", "input_line_number | type", "\"\\(1;2)\"?", "ascii(65)?", "now | type", "localtime | type", "mktime?", "gmtime | mktime", "strptime(\"%Y\")?", "\"2023\" | strptime(\"%Y\") | type", "\"2023-11-14T22:13:20Z\" | strptime(\"%Y-%m-%dT%H:%M:%SZ\")", "\"2023-11-14T22:13:20Z\" | strptime(\"%Y-%m-%dT%H:%M:%SZ\") | mktime", "1700000000 | strflocaltime(\"%H\")", "1700000000 | localtime | mktime", "$ENV | type", "env | type", "$ENV.PATH | type", "input", "[inputs]", "first(inputs)?", "halt", "$__loc__", "$__loc__.line", "input_line_number", "strenv(HOME)?", "ltrimstr(env.HOME)?", "now - now", "now | floor | type", "mktime", "localtime", "strflocaltime(\"%Y\")?", "todate | strptime(\"%Y-%m-%dT%H:%M:%SZ\") | mktime",
];

/// Substrings that make a base term environment dependent (observed, not judged).
const ENV_MARKERS: [&str; 17] = ["input", "now", "env", "$ENV", "debug", "stderr", "halt", "$__loc__", "localtime", "mktime", "strptime", "strflocaltime", "get_search_list", "$__prog_args", "builtins", "strenv", "have_"];

/// Judged at depth 1 only: unbounded generators under limit/first that both evaluators run
/// eagerly up to an internal cap (20-400 ms per evaluation) — too slow to compose.
const SOLO: [&str; 6] = ["[limit(3; while(true; .))]", "[limit(3; until(false; .))]", "first(repeat(.))", "limit(3;repeat(.))", "[limit(3;repeat(.))]", "[limit(3; repeat(1))]"];

/// Core terms for depth 3 (cheap, no blow-up under triple composition).
const CORE: &[&str] = &[
    ".", ".[]", ".[]?", ".a", ".a?", ".[0]", ".[-1]", ".[1:]", "..", "keys", "keys_unsorted", "length", "type", "not", "add", "sort", "reverse", "unique", "first", "last", "min", "max", "flatten", "to_entries", "from_entries", "tojson", "fromjson", "tostring", "tonumber", "values", "empty", "map(.)", "map(.+1)", "map_values(.)", "select(.)", "[.]", "[.[]?]", "{a: .}", ". + 1", ". + .", ". == .", ". // 1", "error", "try error(.) catch .", ".a = 1", ".[0] = 1", ".[] |= 1", "del(.a)", "del(.[0])", "paths", "tostream", "has(\"a\")", "has(0)", "first(.[]?)", "limit(1;.[]?)", "if . then 1 else 2 end", "reduce .[]? as $x (0; . + 1)", ". as $x | $x", "ascii_downcase", "explode", "implode", "floor", "@base64", "@json", "recurse", "transpose", "any", "all", "isempty(.[]?)", "getpath([\"a\"])", "setpath([\"a\"];1)", "with_entries(.)", "group_by(.)", "sort_by(.a?)", "join(\",\")", "split(\",\")", "ltrimstr(\"a\")", "test(\"a\")", "infinite", "nan", "null", "-(.)",
];

#[derive(Clone, Copy, Debug, PartialEq)]
enum CtxInput {
    Same,
    Each,
}

/// Unary contexts: (template with `{}`, short name, where the hole's input comes from).
const CONTEXTS: [(&str, &str, CtxInput); 17] = [
    ("[{}]", "collect", CtxInput::Same),
    ("({})?", "optional", CtxInput::Same),
    ("try ({}) catch .", "try-catch", CtxInput::Same),
    ("[.[] | {}]", "collect-each", CtxInput::Each),
    ("first({})", "first", CtxInput::Same),
    ("[limit(2; {})]", "limit", CtxInput::Same),
    ("map({})", "map", CtxInput::Each),
    ("{a: ({})}", "object-value", CtxInput::Same),
    ("({}) // 1", "alternative", CtxInput::Same),
    ("if ({}) then 1 else 2 end", "if-cond", CtxInput::Same),
    ("reduce ({}) as $x (0; . + 1)", "reduce-source", CtxInput::Same),
    ("path({})", "path", CtxInput::Same),
    ("({}) = 1", "assign", CtxInput::Same),
    ("({}) |= 1", "update", CtxInput::Same),
    ("del({})", "del", CtxInput::Same),
    ("[({}), 1]", "comma-left", CtxInput::Same),
    ("select({})", "select", CtxInput::Same),
];

#[derive(Clone, Debug, PartialEq, Eq, Hash)]
enum P {
    B(u32),
    Pipe(Box<P>, Box<P>),
    Ctx(u8, Box<P>),
}

struct Grammar {
    /// `base[..enumerated]` are the base terms of the grammar; the rest are pipe stages of
    /// composite base terms (attribution only)
    base: Vec<String>,
    enumerated: usize,
    /// environment dependent: observed at depth 1, never judged
    env: Vec<bool>,
    /// judged at depth 1 only
    solo: Vec<bool>,
    /// ignores its input (starts with a literal): never used as the right side of a pipe
    literal_fed: Vec<bool>,
    /// primary terms (quick-tier pipes)
    primary: Vec<bool>,
    core: Vec<u32>,
}

fn is_env(t: &str) -> bool {
    ENV_MARKERS.iter().any(|m| t.contains(m))
}

/// Split `a | rest` at the first top-level pipe, unless `a` binds names that `rest` may use.
fn split_first_pipe(t: &str) -> Option<(String, String)> {
    let mut depth = 0i32;
    let mut in_str = false;
    let b = t.as_bytes();
    let mut i = 0;
    while i < b.len() {
        let c = b[i];
        if in_str {
            if c == b'\\' {
                i += 1;
            } else if c == b'"' {
                in_str = false;
            }
        } else {
            match c {
                b'"' => in_str = true,
                b'(' | b'[' | b'{' => depth += 1,
                b')' | b']' | b'}' => depth -= 1,
                b'|' if depth == 0 && b.get(i + 1) != Some(&b'=') => {
                    let (a, r) = (t[..i].trim(), t[i + 1..].trim());
                    if a.contains(" as ") || a.starts_with("label ") || a.starts_with("def ") || a.is_empty() || r.is_empty() {
                        return None;
                    }
                    return Some((a.to_string(), r.to_string()));
                }
                _ => {}
            }
        }
        i += 1;
    }
    None
}

/// Does the first top-level pipe segment consist of a literal only?
fn is_literal_fed(t: &str) -> bool {
    let mut depth = 0i32;
    let mut in_str = false;
    let b = t.as_bytes();
    let mut seg_end = None;
    let mut i = 0;
    while i < b.len() {
        let c = b[i];
        if in_str {
            if c == b'\\' {
                i += 1;
            } else if c == b'"' {
                in_str = false;
            }
        } else {
            match c {
                b'"' => in_str = true,
                b'(' | b'[' | b'{' => depth += 1,
                b')' | b']' | b'}' => depth -= 1,
                b'|' if depth == 0 && b.get(i + 1) != Some(&b'=') => {
                    seg_end = Some(i);
                    break;
                }
                _ => {}
            }
        }
        i += 1;
    }
    let Some(e) = seg_end else { return false };
    // strip strings
    let mut seg = String::new();
    let mut in_str = false;
    let sb = &b[..e];
    let mut i = 0;
    while i < sb.len() {
        let c = sb[i];
        if in_str {
            if c == b'\\' {
                i += 1;
            } else if c == b'"' {
                in_str = false;
            }
        } else if c == b'"' {
            in_str = true;
            seg.push('S');
        } else {
            seg.push(c as char);
        }
        i += 1;
    }
    if seg.contains("\\(") {
        return false;
    }
    let mut seg = seg;
    for w in ["-infinite", "infinite", "null", "true", "false", "nan"] {
        seg = seg.replace(w, "0");
    }
    let sb = seg.as_bytes();
    sb.iter().enumerate().all(|(i, &c)| match c {
        b'.' => i > 0 && sb[i - 1].is_ascii_digit() && sb.get(i + 1).map_or(false, |d| d.is_ascii_digit()),
        b'[' | b']' | b'{' | b'}' | b',' | b':' | b' ' | b'e' | b'E' | b'+' | b'-' | b'S' => true,
        c => c.is_ascii_digit(),
    })
}

impl Grammar {
    fn new() -> Grammar {
        let mut base: Vec<String> = NULLARY.split(' ').filter(|s| !s.is_empty()).map(|s| s.to_string()).collect();
        let mut nprimary = 0;
        for c in COMPOSITE {
            if *c == "#secondary" {
                nprimary = base.len();
                continue;
            }
            if !base.iter().any(|b| b == c) {
                base.push(c.to_string());
            }
        }
        for c in CORE {
            if !base.iter().any(|b| b == c) {
                base.push(c.to_string());
            }
        }
        // hidden terms: the pipe stages of composite base terms, used only by the attribution
        let enumerated = base.len();
        let mut i = 0;
        while i < base.len() {
            if let Some((a, b)) = split_first_pipe(&base[i]) {
                for seg in [a, b] {
                    if !base.iter().any(|x| *x == seg) {
                        base.push(seg);
                    }
                }
            }
            i += 1;
        }
        let env: Vec<bool> = base.iter().map(|t| is_env(t)).collect();
        let solo: Vec<bool> = base.iter().map(|t| SOLO.contains(&t.as_str())).collect();
        let literal_fed: Vec<bool> = base.iter().map(|t| is_literal_fed(t)).collect();
        let primary: Vec<bool> = (0..base.len()).map(|i| i < nprimary && !env[i] && !solo[i] && !literal_fed[i]).collect();
        let core = CORE.iter().map(|c| base.iter().position(|b| b == c).unwrap_or_else(|| panic!("core term {c} not in base")) as u32).collect();
        Grammar { base, enumerated, env, solo, literal_fed, primary, core }
    }
    fn text(&self, p: &P) -> String {
        match p {
            P::B(i) => self.base[*i as usize].clone(),
            P::Pipe(a, b) => format!("{} | {}", self.text(a), self.text(b)),
            P::Ctx(c, a) => CONTEXTS[*c as usize].0.replace("{}", &self.text(a)),
        }
    }
    fn to_json(&self, p: &P) -> Value {
        match p {
            P::B(i) => json!({"b": self.base[*i as usize]}),
            P::Pipe(a, b) => json!({"pipe": [self.to_json(a), self.to_json(b)]}),
            P::Ctx(c, a) => json!({"ctx": CONTEXTS[*c as usize].1, "of": self.to_json(a)}),
        }
    }
    fn from_json(&self, v: &Value) -> Option<P> {
        if let Some(t) = v.get("b").and_then(|t| t.as_str()) {
            return self.base.iter().position(|b| b == t).map(|i| P::B(i as u32));
        }
        if let Some(a) = v.get("pipe").and_then(|a| a.as_array()) {
            return Some(P::Pipe(Box::new(self.from_json(&a[0])?), Box::new(self.from_json(&a[1])?)));
        }
        let name = v.get("ctx")?.as_str()?;
        let c = CONTEXTS.iter().position(|c| c.1 == name)?;
        Some(P::Ctx(c as u8, Box::new(self.from_json(v.get("of")?)?)))
    }
    fn has_env(&self, p: &P) -> bool {
        match p {
            P::B(i) => self.env[*i as usize],
            P::Pipe(a, b) => self.has_env(a) || self.has_env(b),
            P::Ctx(_, a) => self.has_env(a),
        }
    }
    /// Name of a (minimal) sub-program for signatures: the builtin / operator, never an input.
    /// A pipe that only fails as a whole is named by its interface — the last stage of the
    /// left side and the first stage of the right side — so `map(f) | first` has one name
    /// for every f.
    fn head(&self, p: &P) -> String {
        match p {
            P::B(i) => head_of(&self.base[*i as usize], true),
            P::Pipe(a, b) => format!("pipe({}|{})", self.stage_head(a, true), self.stage_head(b, false)),
            P::Ctx(c, a) => format!("{}({})", CONTEXTS[*c as usize].1, self.stage_head(a, true)),
        }
    }
    /// Head of the last (`last == true`) or first pipe stage of `p`; contexts that pass
    /// their values through unchanged are looked through.
    fn stage_head(&self, p: &P, last: bool) -> String {
        match p {
            P::B(i) => head_of(&self.base[*i as usize], last),
            P::Pipe(a, b) => self.stage_head(if last { b } else { a }, last),
            P::Ctx(c, a) => {
                let name = CONTEXTS[*c as usize].1;
                if matches!(name, "optional" | "try-catch" | "first" | "alternative") {
                    self.stage_head(a, last)
                } else {
                    name.to_string()
                }
            }
        }
    }
}

/// Head of a base term: the last builtin-like identifier applied at top level, or the
/// operator skeleton when the term is built from `.`-paths and operators only.
fn head_of(t: &str, last: bool) -> String {
    // split at top-level pipes; take the last or the first stage
    let mut depth = 0i32;
    let mut in_str = false;
    let b = t.as_bytes();
    let mut pipes: Vec<usize> = Vec::new();
    let mut i = 0;
    while i < b.len() {
        let c = b[i];
        if in_str {
            if c == b'\\' {
                i += 1;
            } else if c == b'"' {
                in_str = false;
            }
        } else {
            match c {
                b'"' => in_str = true,
                b'(' | b'[' | b'{' => depth += 1,
                b')' | b']' | b'}' => depth -= 1,
                b'|' if depth == 0 && b.get(i + 1) != Some(&b'=') => pipes.push(i),
                _ => {}
            }
        }
        i += 1;
    }
    let tail = if pipes.is_empty() {
        t.trim()
    } else if last {
        t[pipes[pipes.len() - 1] + 1..].trim()
    } else {
        t[..pipes[0]].trim()
    };
    // first identifier (with @ or $ prefix) outside strings
    let tb = tail.as_bytes();
    let mut i = 0;
    let mut in_str = false;
    while i < tb.len() {
        let c = tb[i];
        if in_str {
            if c == b'\\' {
                i += 1;
            } else if c == b'"' {
                in_str = false;
            }
            i += 1;
            continue;
        }
        if c == b'"' {
            in_str = true;
            i += 1;
            continue;
        }
        let prev_dot = i > 0 && (tb[i - 1] == b'.' || tb[i - 1] == b'$');
        if (c.is_ascii_alphabetic() || c == b'_' || c == b'@') && !prev_dot {
            let s = i;
            i += 1;
            while i < tb.len() && (tb[i].is_ascii_alphanumeric() || tb[i] == b'_') {
                i += 1;
            }
            let id = &tail[s..i];
            if !matches!(id, "e" | "E") || !(s > 0 && tb[s - 1].is_ascii_digit()) {
                return id.to_string();
            }
            continue;
        }
        if c.is_ascii_alphabetic() && prev_dot {
            while i < tb.len() && (tb[i].is_ascii_alphanumeric() || tb[i] == b'_') {
                i += 1;
            }
            continue;
        }
        i += 1;
    }
    // operator skeleton: drop spaces, identifiers after '.', digits and strings
    let mut sk = String::new();
    let mut in_str = false;
    let mut i = 0;
    while i < tb.len() {
        let c = tb[i];
        if in_str {
            if c == b'\\' {
                i += 1;
            } else if c == b'"' {
                in_str = false;
                sk.push('S');
            }
        } else if c == b'"' {
            in_str = true;
        } else if c.is_ascii_digit() {
            if !sk.ends_with('N') {
                sk.push('N');
            }
        } else if c.is_ascii_alphabetic() || c == b'_' {
            if !sk.ends_with('k') {
                sk.push('k');
            }
        } else if c != b' ' {
            sk.push(c as char);
        }
        i += 1;
    }
    format!("op`{sk}`")
}

fn programs(g: &Grammar, ctx: &Ctx) -> Vec<P> {
    let n = g.enumerated as u32;
    let mut out: Vec<P> = (0..n).map(P::B).collect();
    let judged: Vec<u32> = (0..n).filter(|&i| !g.env[i as usize] && !g.solo[i as usize]).collect();
    if std::env::var("C23_DEPTH1").is_ok() {
        return out;
    }
    // depth 2: every unary context around every judged base term
    for &a in &judged {
        for c in 0..CONTEXTS.len() as u8 {
            out.push(P::Ctx(c, Box::new(P::B(a))));
        }
    }
    // depth 2 pipes: quick = primary x primary; thorough = every judged term x every judged term that reads its input
    let (left, right): (Vec<u32>, Vec<u32>) = if ctx.quick() {
        let p: Vec<u32> = judged.iter().copied().filter(|&i| g.primary[i as usize]).collect();
        (p.clone(), p)
    } else {
        (judged.clone(), judged.iter().copied().filter(|&i| !g.literal_fed[i as usize]).collect())
    };
    for &a in &left {
        for &b in &right {
            out.push(P::Pipe(Box::new(P::B(a)), Box::new(P::B(b))));
        }
    }
    if ctx.thorough() {
        // depth 3 over the core operators: a|b|c, ctx(a|b), ctx(a)|b, a|ctx(b), ctx(ctx(a))
        for &a in &g.core {
            for &b in &g.core {
                for &c in &g.core {
                    out.push(P::Pipe(Box::new(P::Pipe(Box::new(P::B(a)), Box::new(P::B(b)))), Box::new(P::B(c))));
                }
                for c in 0..CONTEXTS.len() as u8 {
                    out.push(P::Ctx(c, Box::new(P::Pipe(Box::new(P::B(a)), Box::new(P::B(b))))));
                    out.push(P::Pipe(Box::new(P::Ctx(c, Box::new(P::B(a)))), Box::new(P::B(b))));
                    out.push(P::Pipe(Box::new(P::B(a)), Box::new(P::Ctx(c, Box::new(P::B(b))))));
                }
            }
            for c in 0..CONTEXTS.len() as u8 {
                for d in 0..CONTEXTS.len() as u8 {
                    out.push(P::Ctx(d, Box::new(P::Ctx(c, Box::new(P::B(a))))));
                }
            }
        }
    }
    out
}

// ------------------------------------------------------------- comparison --

#[derive(Clone, Debug, PartialEq)]
enum Cmp {
    Same,
    /// equal as values; differs only in number spelling and/or object key order
    Presentation(&'static str),
    Differ(String),
}

fn parse_all(outs: &[String]) -> Option<Vec<V>> {
    outs.iter().map(|s| parse_json(s).ok()).collect()
}

/// What differs between two observations (for signatures and verdicts).
fn compare(f: &Obs, g: &Obs) -> Cmp {
    if f == g {
        return Cmp::Same;
    }
    if f.term != g.term {
        let k = if f.term.kind() == g.term.kind() {
            format!("{}-differs", match f.term { Term::Error(_) => "error-message", Term::Break(_) => "break-label", Term::Halt(_) => "halt-code", Term::End => "end" })
        } else {
            format!("terminal:full={},generic={}", f.term.kind(), g.term.kind())
        };
        return Cmp::Differ(k);
    }
    if f.outs.len() != g.outs.len() {
        return Cmp::Differ(format!("output-count:{}", if f.outs.len() > g.outs.len() { "full-more" } else { "generic-more" }));
    }
    match (parse_all(&f.outs), parse_all(&g.outs)) {
        (Some(a), Some(b)) => {
            if a.iter().zip(&b).all(|(x, y)| veq_ordered(x, y)) {
                Cmp::Presentation("number-spelling")
            } else if a.iter().zip(&b).all(|(x, y)| veq(x, y)) {
                Cmp::Presentation("key-order")
            } else {
                Cmp::Differ("output-value".into())
            }
        }
        _ => Cmp::Differ("output-not-json".into()),
    }
}

#[derive(Clone, Debug)]
enum Run {
    Ok(Obs),
    Panic(String),
}

thread_local! {
    /// the inputs, indexed once per worker thread
    static DOCS: Vec<Doc> = INPUTS.iter().map(|t| Doc::new(t.as_bytes())).collect();
}

fn with_doc<R>(input: &[u8], f: impl FnOnce(&Doc) -> R) -> R {
    match INPUTS.iter().position(|t| t.as_bytes() == input) {
        Some(i) => DOCS.with(|d| f(&d[i])),
        None => f(&Doc::new(input)),
    }
}

fn run_both(e: &Expr, input: &[u8]) -> (Run, Run) {
    with_doc(input, |d| {
        let f = match catch(|| run_full_doc(d, e)) {
            Ok(o) => Run::Ok(o),
            Err(m) => Run::Panic(m),
        };
        let g = match catch(|| run_generic_doc(d, e)) {
            Ok(o) => Run::Ok(o),
            Err(m) => Run::Panic(m),
        };
        (f, g)
    })
}

/// Verdict on one (program, input) pair.
enum Verdict {
    Agree(Obs),
    Presentation(&'static str),
    BothPanic(String),
    Disagree(String, Run, Run),
}

fn judge(e: &Expr, input: &[u8]) -> Verdict {
    match run_both(e, input) {
        (Run::Ok(f), Run::Ok(g)) => match compare(&f, &g) {
            Cmp::Same => Verdict::Agree(f),
            Cmp::Presentation(k) => Verdict::Presentation(k),
            Cmp::Differ(k) => Verdict::Disagree(k, Run::Ok(f), Run::Ok(g)),
        },
        (Run::Panic(a), Run::Panic(b)) if a == b => Verdict::BothPanic(a),
        (f, g) => {
            let k = match (&f, &g) {
                (Run::Panic(_), Run::Ok(_)) => "panic:full-only",
                (Run::Ok(_), Run::Panic(_)) => "panic:generic-only",
                _ => "panic:different-messages",
            };
            Verdict::Disagree(k.into(), f, g)
        }
    }
}

fn disagrees(g: &Grammar, p: &P, input: &str) -> bool {
    match jq::parse(&g.text(p)) {
        Ok(e) => matches!(judge(&e, input.as_bytes()), Verdict::Disagree(..)),
        Err(_) => false,
    }
}

/// Outputs of the full evaluator (used only where both evaluators agree).
fn outputs(g: &Grammar, p: &P, input: &str) -> Vec<String> {
    match jq::parse(&g.text(p)) {
        Ok(e) => match catch(|| with_doc(input.as_bytes(), |d| run_full_doc(d, &e))) {
            Ok(o) => o.outs,
            Err(_) => vec![],
        },
        Err(_) => vec![],
    }
}

/// Attribute a disagreement of `p` on `input` to its minimal sub-program:
/// `A | B` whose prefix A already disagrees on the input is attributed to A; if A
/// agrees and B disagrees on one of A's outputs, to B on that output; a context
/// C[A] to A when A disagrees on the input the hole receives.
fn attribute(g: &Grammar, p: &P, input: &str, fuel: u32) -> (P, String) {
    if fuel == 0 {
        return (p.clone(), input.to_string());
    }
    match p {
        P::B(i) => match split_first_pipe(&g.base[*i as usize]) {
            // a composite base term is attributed like the pipe it is
            Some((a, b)) => {
                let find = |t: &str| g.base.iter().position(|x| x == t).map(|k| P::B(k as u32));
                match (find(&a), find(&b)) {
                    (Some(pa), Some(pb)) => {
                        let (m, y) = attribute(g, &P::Pipe(Box::new(pa), Box::new(pb)), input, fuel - 1);
                        // nothing narrower than the whole term: keep the term itself
                        if g.text(&m) == g.text(p) {
                            (p.clone(), input.to_string())
                        } else {
                            (m, y)
                        }
                    }
                    _ => (p.clone(), input.to_string()),
                }
            }
            None => (p.clone(), input.to_string()),
        },
        P::Pipe(a, b) => {
            if disagrees(g, a, input) {
                return attribute(g, a, input, fuel - 1);
            }
            for y in outputs(g, a, input) {
                if disagrees(g, b, &y) {
                    return attribute(g, b, &y, fuel - 1);
                }
            }
            (p.clone(), input.to_string())
        }
        P::Ctx(c, a) => {
            let holes: Vec<String> = match CONTEXTS[*c as usize].2 {
                CtxInput::Same => vec![input.to_string()],
                CtxInput::Each => match parse_json(input) {
                    Ok(V::Arr(xs)) => xs.iter().map(|x| x.to_json()).collect(),
                    Ok(V::Obj(kv)) => kv.iter().map(|(_, x)| x.to_json()).collect(),
                    _ => vec![],
                },
            };
            for y in holes {
                if disagrees(g, a, &y) {
                    return attribute(g, a, &y, fuel - 1);
                }
            }
            (p.clone(), input.to_string())
        }
    }
}

/// Builtins whose natural input is an array / a string / a number: for these the
/// signature says whether the (minimal) input was inside that domain.
const ARRAY_DOMAIN: [&str; 26] = ["reverse", "sort", "sort_by", "group_by", "unique", "unique_by", "min", "max", "min_by", "max_by", "flatten", "add", "any", "all", "transpose", "join", "first", "last", "nth", "implode", "from_entries", "combinations", "bsearch", "tojsonstream", "IN", "toarray"];
const STRING_DOMAIN: [&str; 24] = ["ascii_downcase", "ascii_upcase", "ltrimstr", "rtrimstr", "trimstr", "startswith", "endswith", "ltrim", "rtrim", "trim", "explode", "split", "splits", "test", "match", "capture", "scan", "sub", "gsub", "fromjson", "tonumber", "fromdate", "fromdateiso8601", "utf8bytelength"];
const NUMBER_DOMAIN: [&str; 12] = ["floor", "ceil", "round", "sqrt", "fabs", "abs", "trunc", "pow", "log", "exp", "todate", "gmtime"];

fn input_class(head: &str, v: &V) -> &'static str {
    let t = v.type_name();
    if ARRAY_DOMAIN.contains(&head) {
        return if t == "array" { "array" } else { "non-array" };
    }
    if STRING_DOMAIN.contains(&head) {
        return if t == "string" { "string" } else { "non-string" };
    }
    if NUMBER_DOMAIN.contains(&head) {
        return if t == "number" { "number" } else { "non-number" };
    }
    match v {
        V::Null => "null",
        V::Arr(_) | V::Obj(_) => "container",
        _ => "scalar",
    }
}

fn kind_of(g: &Grammar, p: &P, input: &str) -> Option<String> {
    match jq::parse(&g.text(p)) {
        Ok(e) => match judge(&e, input.as_bytes()) {
            Verdict::Disagree(k, _, _) => Some(k),
            _ => None,
        },
        Err(_) => None,
    }
}

/// Signature of a disagreement of program `p` on `input`:
/// 1. attribute it to the minimal sub-program m on the input y that m receives;
/// 2. if y holds an object with duplicate keys and m agrees once the duplicates are
///    collapsed the way a JSON reader does (first position, last value), the raw
///    duplicate-key view is the cause: `dup-key-object:<what differs>`;
/// 3. otherwise `<head of m>:<class of y>:<what differs>`.
fn signature(g: &Grammar, p: &P, input: &str, kind: &str) -> (String, P, String) {
    let (m, y) = attribute(g, p, input, 8);
    let kind2 = if &m == p && y == input { kind.to_string() } else { kind_of(g, &m, &y).unwrap_or_else(|| kind.to_string()) };
    let yv = parse_json(&y);
    if let Ok(v) = &yv {
        if v.has_dup_keys() && !disagrees(g, &m, &v.dedup_keys().to_json()) {
            let what = match kind2.split(':').next().unwrap_or("") {
                "output-count" => "output-count",
                "output-value" => "output-value",
                "output-not-json" => "output-not-json",
                k if k.starts_with("panic") => "panic",
                _ => "terminal",
            };
            return (format!("dup-key-object:{what}"), m, y);
        }
    }
    let head = g.head(&m);
    let cls = yv.as_ref().map(|v| input_class(&head, v)).unwrap_or("unparsable");
    (format!("{head}:{cls}:{kind2}"), m, y)
}

fn run_json(r: &Run) -> Value {
    match r {
        Run::Ok(o) => json!({"outputs": o.outs, "terminal": o.term.show()}),
        Run::Panic(m) => json!({"panic": m}),
    }
}

fn check_program(g: &Grammar, p: &P, rep: &mut Report, stats: &mut Stats) {
    let text = g.text(p);
    let e = match catch(|| jq::parse(&text)) {
        Ok(Ok(e)) => e,
        Ok(Err(_)) => {
            stats.parse_errors += 1;
            if let P::B(_) = p {
                stats.unparsed_base.push(text);
            }
            return;
        }
        Err(m) => {
            // a parser panic is C19/C30 territory; recorded, not judged here
            stats.parser_panics += 1;
            let key: String = format!("parser: {}", m.chars().take(70).collect::<String>());
            if stats.panic_examples.len() < 40 && !stats.panic_examples.contains_key(&key) {
                stats.panic_examples.insert(key, json!({"program": text, "parser_panic": m}));
            }
            return;
        }
    };
    let env = g.has_env(p);
    let trace = std::env::var("C23_TRACE").is_ok();
    for input in INPUTS {
        let t0 = std::time::Instant::now();
        rep.input();
        rep.trans(2);
        match judge(&e, input.as_bytes()) {
            Verdict::Agree(o) => {
                // distinct + non-trivial: an agreed observation that is not "no output, normal end"
                if !o.outs.is_empty() || o.term != Term::End {
                    rep.distinct(&o);
                    if !o.outs.is_empty() && h64(&(text.as_str(), input)) % 40_009 == 0 {
                        rep.sample(|| json!({"program": text, "input": input, "both_evaluators": {"outputs": o.outs, "terminal": o.term.show()}}));
                    }
                }
            }
            Verdict::Presentation(k) => {
                if k == "number-spelling" {
                    stats.spelling += 1;
                    if stats.spelling_example.is_none() {
                        stats.spelling_example = Some(json!({"program": text, "input": input}));
                    }
                } else {
                    stats.key_order += 1;
                    if stats.key_order_example.is_none() {
                        stats.key_order_example = Some(json!({"program": text, "input": input}));
                    }
                }
            }
            Verdict::BothPanic(m) => {
                stats.both_panic += 1;
                let key: String = m.chars().take(80).collect();
                if stats.panic_examples.len() < 40 && !stats.panic_examples.contains_key(&key) {
                    stats.panic_examples.insert(key, json!({"program": text, "input": input, "panic": m}));
                }
            }
            Verdict::Disagree(kind, f, gn) => {
                if env {
                    stats.env_disagreements += 1;
                    if stats.env_examples.len() < 3 {
                        stats.env_examples.push(json!({"program": text, "input": input, "full": run_json(&f), "generic": run_json(&gn)}));
                    }
                    continue;
                }
                let (sig, m, y) = signature(g, p, input, &kind);
                let size = text.len() * 100 + input.len();
                rep.fail(&sig, size, || {
                    json!({"kind":"pair","program":text,"input":input,"full":run_json(&f),"generic":run_json(&gn),
                           "minimal_program":g.text(&m),"minimal_input":y,"difference":kind,"structure":g.to_json(p)})
                });
            }
        }
        if !env {
            stats.judged += 1;
        }
        if trace && t0.elapsed().as_millis() > 150 {
            eprintln!("SLOW {} ms: {text}   on {input}", t0.elapsed().as_millis());
        }
    }
}

#[derive(Default)]
struct Stats {
    parse_errors: u64,
    parser_panics: u64,
    unparsed_base: Vec<String>,
    spelling: u64,
    key_order: u64,
    both_panic: u64,
    env_disagreements: u64,
    judged: u64,
    spelling_example: Option<Value>,
    key_order_example: Option<Value>,
    panic_examples: std::collections::BTreeMap<String, Value>,
    env_examples: Vec<Value>,
}

fn explore(ctx: &Ctx, rep: &mut Report) {
    jqgen::selftest();
    let g = Grammar::new();
    let progs = programs(&g, ctx);
    let total = std::sync::Mutex::new(Stats::default());
    let r = par_range_in(ctx, "programs", progs.len() as u64, 64, |i, rep| {
        let mut st = Stats::default();
        check_program(&g, &progs[i as usize], rep, &mut st);
        let mut t = total.lock().unwrap();
        t.parse_errors += st.parse_errors;
        t.parser_panics += st.parser_panics;
        t.unparsed_base.extend(st.unparsed_base);
        t.spelling += st.spelling;
        t.key_order += st.key_order;
        t.both_panic += st.both_panic;
        t.env_disagreements += st.env_disagreements;
        t.judged += st.judged;
        if t.spelling_example.is_none() {
            t.spelling_example = st.spelling_example;
        }
        if t.key_order_example.is_none() {
            t.key_order_example = st.key_order_example;
        }
        for (k, v) in st.panic_examples {
            if t.panic_examples.len() < 40 {
                t.panic_examples.entry(k).or_insert(v);
            }
        }
        for v in st.env_examples {
            if t.env_examples.len() < 10 {
                t.env_examples.push(v);
            }
        }
    });
    rep.merge(r);
    let t = total.into_inner().unwrap();
    rep.extra.insert("programs".into(), json!(progs.len()));
    rep.extra.insert("base_terms".into(), json!(g.enumerated));
    rep.extra.insert("base_terms_env_dependent_not_judged".into(), json!(g.env[..g.enumerated].iter().filter(|&&e| e).count()));
    rep.extra.insert("contexts".into(), json!(CONTEXTS.iter().map(|c| c.0).collect::<Vec<_>>()));
    rep.extra.insert("core_terms_depth3".into(), json!(g.core.len()));
    rep.extra.insert("inputs".into(), json!(INPUTS));
    rep.extra.insert("programs_rejected_by_parser".into(), json!(t.parse_errors));
    rep.extra.insert("base_terms_rejected_by_parser".into(), json!(t.unparsed_base));
    rep.extra.insert("parser_panics_not_judged".into(), json!(t.parser_panics));
    rep.extra.insert("pairs_judged".into(), json!(t.judged));
    rep.extra.insert("pairs_env_dependent_disagreeing_not_judged".into(), json!(t.env_disagreements));
    rep.extra.insert("pairs_both_panic_identically_not_judged".into(), json!(t.both_panic));
    rep.extra.insert("panic_examples_for_C30".into(), json!(t.panic_examples));
    rep.extra.insert("env_dependent_disagreement_examples".into(), json!(t.env_examples));
    rep.extra.insert("pairs_equal_values_different_number_spelling".into(), json!({"count": t.spelling, "example": t.spelling_example}));
    rep.extra.insert("pairs_equal_values_different_key_order".into(), json!({"count": t.key_order, "example": t.key_order_example}));
    rep.mark_exhaustive("programs", "every program of the grammar x all 19 inputs");
}

fn replay(case: &Value, rep: &mut Report) {
    let g = Grammar::new();
    let text = case["program"].as_str().unwrap();
    let input = case["input"].as_str().unwrap();
    let Some(p) = g.from_json(&case["structure"]) else {
        rep.fail("replay:program-not-in-grammar", 0, || case.clone());
        return;
    };
    assert_eq!(g.text(&p), text, "recorded structure renders to the recorded program");
    let e = jq::parse(text).expect("recorded program parses");
    rep.input();
    rep.trans(2);
    if let Verdict::Disagree(kind, f, gn) = judge(&e, input.as_bytes()) {
        let (sig, m, y) = signature(&g, &p, input, &kind);
        rep.fail(&sig, 0, || json!({"kind":"pair","program":text,"input":input,"full":run_json(&f),"generic":run_json(&gn),"minimal_program":g.text(&m),"minimal_input":y,"difference":kind,"structure":g.to_json(&p)}));
    }
}

fn main() {
    drive("C23", explore, replay);
}
